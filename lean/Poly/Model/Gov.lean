import Poly.Util.Hex
import Poly.Generated.Thresholds
/-!
# Governance model (L4): node manager, side-chain / relayer / state-validator registries, quorum ledgers

Executable model of
  native/service/governance/node_manager        (all nine methods, CheckConsensusSigns, executeCommitDpos)
  native/service/governance/side_chain_manager  (register / update / quit requests and their approvals)
  native/service/governance/relayer_manager     (register / remove requests and their approvals)
  native/service/governance/neo3_state_manager  (register / remove requests and their approvals)
  native/service/governance/signature_manager   (AddSignature, CheckSigns)
  native/service/cross_chain_manager/consensus_vote (CheckVotes)
over an abstract store: one association list per key prefix of the Go code (the record kinds are the prefixes).
One `Op` is one transaction: the state changes only when the handler returns no error (tx_handler.go commits the
cache only then). The hash of the approval ledgers' key and the public-key -> address map are parameters
(`H`, `State.keys`); the thresholds are the generated definitions (extract/thresholds).
Go maps: the pool is stored as the list of its items (the map key is the item's public key string after every
reload); every loop over it that the model needs is a count, a filter or a pointwise update, hence order free.
-/
namespace Poly.Model.Gov
open Poly.Generated.Thresholds

abbrev Bytes := List UInt8
abbrev Addr := Bytes

/-! ## Association lists (one per key prefix of the contracts) -/

def alGet {κ ν : Type} [DecidableEq κ] : List (κ × ν) → κ → Option ν
  | [], _ => none
  | (k', v) :: t, k => if k' = k then some v else alGet t k

def alErase {κ ν : Type} [DecidableEq κ] (l : List (κ × ν)) (k : κ) : List (κ × ν) :=
  l.filter (fun p => decide (p.1 ≠ k))

def alPut {κ ν : Type} [DecidableEq κ] (l : List (κ × ν)) (k : κ) (v : ν) : List (κ × ν) :=
  alErase l k ++ [(k, v)]

def alHas {κ ν : Type} [DecidableEq κ] (l : List (κ × ν)) (k : κ) : Bool := (alGet l k).isSome

/-! ## Records -/

inductive Status | cand | cons | quit | black
deriving DecidableEq, Repr, Inhabited

def Status.code : Status → Nat
  | .cand => 0 | .cons => 1 | .quit => 2 | .black => 3

def Status.active : Status → Bool
  | .cand => true | .cons => true | _ => false

structure PeerItem where
  index : Nat
  pk : String
  addr : Addr
  status : Status
deriving DecidableEq, Repr

structure SideChain where
  addr : Addr
  chainId : Nat
  router : Nat
  name : Bytes
  btw : Nat
  ccmc : Bytes
  extra : Bytes
deriving DecidableEq, Repr

structure Config where
  blockMsgDelay : Nat
  hashMsgDelay : Nat
  peerHandshakeTimeout : Nat
  maxBlockChangeView : Nat
deriving DecidableEq, Repr

structure GovView where
  view : Nat
  height : Nat
deriving DecidableEq, Repr

structure State where
  /-- environment: serialized public keys that deserialize and are VRF valid, with their address -/
  keys : List (Bytes × Addr) := []
  /-- height of the block the next transactions are in -/
  height : Nat := 1
  /-- timestamp of that block -/
  time : Nat := 0
  -- node manager (contract ..05)
  gv : Option GovView := none
  candIndex : Option Nat := none
  cfg : Option Config := none
  pools : List (Nat × List PeerItem) := []
  apply : List (Bytes × (String × Addr)) := []
  pidx : List (Bytes × Nat) := []
  black : List (Bytes × (String × Addr)) := []
  signs : List (Bytes × List Addr) := []
  -- side chain manager (..04)
  scApply : List (Nat × SideChain) := []
  scUpd : List (Nat × SideChain) := []
  scQuit : List Nat := []
  sc : List (Nat × SideChain) := []
  /-- fee ‖ chain id -> (view, fee) and feeInfo ‖ chain id ‖ view -> (start time, proposed fee per voter) -/
  fees : List (Nat × (Nat × Nat)) := []
  feeInfos : List ((Nat × Nat) × (Nat × List (Addr × Nat))) := []
  -- relayer manager (..06)
  relayers : List Addr := []
  rlApply : List (Nat × (List Addr × Addr)) := []
  rlRemove : List (Nat × (List Addr × Addr)) := []
  rlApplyId : Option Nat := none
  rlRemoveId : Option Nat := none
  -- neo3 state manager (..07)
  svs : Option (List String) := none
  svApply : List (Nat × (List String × Addr)) := []
  svRemove : List (Nat × (List String × Addr)) := []
  svApplyId : Option Nat := none
  svRemoveId : Option Nat := none
  -- signature manager (..08) and vote ledgers of the cross chain manager (..03)
  sigs : List (Bytes × (Bool × List (Addr × Bytes))) := []
  votes : List (Bytes × (Bool × List Addr)) := []
  /-- cross chain manager: executed source transactions (`doneTx ‖ chain id ‖ cross chain id`) -/
  doneTx : List (Nat × Bytes) := []
  /-- node-local cache of the transaction pool actor (txnpool/proc permittedAddrMap): addresses that may submit
  transactions besides the registered relayers; filled from the pool of the current view, never pruned -/
  permitted : List Addr := []

inductive Fail | err | panic
deriving DecidableEq, Repr

structure Out where
  st : State
  ret : String
  events : List String

abbrev M := Except Fail

/-! ## Helpers mirroring the Go helpers -/

/-- UTF-8 encoding of one character (written out so that the kernel can evaluate it on literals). -/
def utf8Char (c : Char) : Bytes :=
  let v := c.toNat
  if v < 0x80 then [UInt8.ofNat v]
  else if v < 0x800 then [UInt8.ofNat (0xC0 + v / 64), UInt8.ofNat (0x80 + v % 64)]
  else if v < 0x10000 then [UInt8.ofNat (0xE0 + v / 4096), UInt8.ofNat (0x80 + (v / 64) % 64), UInt8.ofNat (0x80 + v % 64)]
  else [UInt8.ofNat (0xF0 + v / 262144), UInt8.ofNat (0x80 + (v / 4096) % 64), UInt8.ofNat (0x80 + (v / 64) % 64), UInt8.ofNat (0x80 + v % 64)]

/-- `[]byte(s)` of a Go string. -/
def strBytes (s : String) : Bytes := s.toList.flatMap utf8Char

/-- `utils.GetUint64Bytes` (little endian). -/
def u64le (n : Nat) : Bytes := (List.range 8).map (fun i => UInt8.ofNat ((n >>> (8 * i)) % 256))

/-- `hex.DecodeString` (both cases accepted, odd length or other characters rejected). -/
def decodePk (s : String) : Option Bytes := Poly.Hex.ofHexChars s.toList

/-- hex decode, `keypair.DeserializePublicKey`, `types.AddressFromPubKey`. -/
def addrOfPk (s : State) (pk : String) : Option Addr :=
  match decodePk pk with
  | none => none
  | some b => alGet s.keys b

def witness (signers : List Addr) (a : Addr) : Bool := signers.contains a

def poolFind (p : List PeerItem) (pk : String) : Option PeerItem := p.find? (fun it => decide (it.pk = pk))

def poolSetStatus (p : List PeerItem) (pk : String) (st : Status) : List PeerItem :=
  p.map (fun it => if it.pk = pk then { it with status := st } else it)

/-- `m[key] = item` followed by the store: the entry stored under `key` is replaced. -/
def poolInsert (p : List PeerItem) (key : String) (item : PeerItem) : List PeerItem :=
  p.filter (fun it => decide (it.pk ≠ key)) ++ [item]

def activeCount (p : List PeerItem) : Nat := (p.filter (fun it => it.status.active)).length

def consItems (p : List PeerItem) : List PeerItem := p.filter (fun it => decide (it.status = .cons))

/-- Addresses of the consensus members, one per pool entry (`none`: a stored key does not decode). -/
def consAddrs (s : State) (p : List PeerItem) : Option (List Addr) := (consItems p).mapM (fun it => addrOfPk s it.pk)

def curPool (s : State) : Option (GovView × List PeerItem) :=
  match s.gv with
  | none => none
  | some gv => match alGet s.pools gv.view with
    | none => none
    | some p => some (gv, p)

def countIn (l : List Addr) (set : List Addr) : Nat := (l.filter (fun a => set.contains a)).length

def addOnce (l : List Addr) (a : Addr) : List Addr := if l.contains a then l else l ++ [a]

/-! ## Quorum ledgers: the counting cores -/

/-- Core of `CheckConsensusSigns`: the approver joins the signer set of the ledger entry; the quorum is decided on the
members of the current consensus set (one count per pool entry) found in the signer set. -/
def ccsCore (ledger cons : List Addr) (a : Addr) : List Addr × Bool :=
  (addOnce ledger a, nodemgr_CheckConsensusSigns0 (countIn cons (addOnce ledger a) : Nat) (cons.length : Nat))

/-- Core of `CheckVotes` for an open ledger entry and a voter that is a consensus member: new voter list, released. -/
def voteCore (voters cons : List Addr) (a : Addr) : List Addr × Bool :=
  let fresh := !voters.contains a
  (if fresh then voters ++ [a] else voters,
   vote_CheckVotes0 (countIn cons voters + (if fresh then 1 else 0) : Nat) (cons.length : Nat))

def sigHas (l : List (Addr × Bytes)) (a : Addr) : Bool := l.any (fun p => p.1 == a)

/-- Core of `CheckSigns` for a signer that is a consensus member: new entry (status, signatures) and `shouldEmit`. -/
def sigCore (info : Bool × List (Addr × Bytes)) (cons : List Addr) (a : Addr) (sig : Bytes) :
    (Bool × List (Addr × Bytes)) × Bool :=
  let fresh := !sigHas info.2 a
  let entries := if fresh then info.2 ++ [(a, sig)] else info.2
  let num := countIn cons (info.2.map (·.1)) + (if fresh then 1 else 0)
  let reached := sigmgr_CheckSigns1 (num : Nat) (cons.length : Nat)
  ((info.1 || reached, entries), reached && !info.1)

/-- `CheckVotes` on one ledger entry `(released, voters)` given the consensus addresses: `none` = rejected (the voter is
not a consensus member), otherwise the new entry and whether this vote releases the message. A released entry ignores
every further vote. -/
def voteStep (info : Bool × List Addr) (cons : List Addr) (a : Addr) : Option ((Bool × List Addr) × Bool) :=
  if info.1 then some (info, false)
  else if !cons.contains a then none
  else some (((voteCore info.2 cons a).2, (voteCore info.2 cons a).1), (voteCore info.2 cons a).2)

/-- `CheckSigns` on one entry: `none` = rejected (not a consensus member), otherwise new entry and `shouldEmit`. -/
def sigStep (info : Bool × List (Addr × Bytes)) (cons : List Addr) (a : Addr) (sig : Bytes) :
    Option ((Bool × List (Addr × Bytes)) × Bool) :=
  if !cons.contains a then none else some (sigCore info cons a sig)

section
variable (H : Bytes → Bytes)

def ledgerKey (method : String) (input : Bytes) : Bytes := H (strBytes method ++ input)

def ledgerOf (s : State) (key : Bytes) : List Addr := (alGet s.signs key).getD []

/-- `node_manager.CheckConsensusSigns`: new state, whether the quorum is reached, the notification. On quorum the
ledger entry is deleted, otherwise stored. -/
def checkConsensusSigns (s : State) (method : String) (input : Bytes) (a : Addr) : M (State × Bool × String) :=
  match curPool s with
  | none => .error .err
  | some (_, pool) =>
    match consAddrs s pool with
    | none => .error .err
    | some cons =>
      let key := ledgerKey H method input
      let r := ccsCore (ledgerOf s key) cons a
      .ok ({ s with signs := if r.2 then alErase s.signs key else alPut s.signs key r.1 }, r.2,
           "CheckConsensusSigns:" ++ toString r.1.length)

/-- `ClearConsensusSigns`. -/
def clearSigns (s : State) (method : String) (input : Bytes) : State :=
  { s with signs := alErase s.signs (ledgerKey H method input) }
end

/-! ## Plans: what a transaction is going to do

Every handler either finishes by itself (`done`) or asks for validator approval (`approve`): it passes
`(method, input, address)` to `CheckConsensusSigns` and names the effect that is applied when the quorum is reached. -/

structure Approval where
  method : String
  input : Bytes
  addr : Addr
  /-- return value while the quorum is not reached -/
  retNo : String
  /-- the action, applied to the state left by `CheckConsensusSigns`, and its notification -/
  onFire : State → M (State × String)

inductive Plan
  | done (o : Out)
  | approve (a : Approval)

/-! ## Node manager -/

def wrapSub32 (a b : Nat) : Nat := (a + 4294967296 - b % 4294967296) % 4294967296

/-- `executeCommitDpos`. -/
def executeCommitDpos (s : State) : M State :=
  match curPool s with
  | none => .error .err
  | some (gv, pool) =>
    if s.height = gv.height then .error .err else
    .ok { s with pools := alErase (alPut s.pools (gv.view + 1)
                    ((pool.filter (fun it => it.status.active)).map (fun it => { it with status := Status.cons })))
                    (wrapSub32 gv.view 1),
                 gv := some { view := gv.view + 1, height := s.height } }

def dupIdx : List (Nat × String × Addr) → Bool
  | [] => false
  | p :: t => t.any (fun q => q.1 = p.1) || dupIdx t

def dupPk : List (Nat × String × Addr) → Bool
  | [] => false
  | p :: t => t.any (fun q => q.2.1 = p.2.1) || dupPk t

/-- index records written by `InitConfig`: one per peer, under the decoded key -/
def pidxFold (acc : List (Bytes × Nat)) (peers : List (Nat × String × Addr)) : List (Bytes × Nat) :=
  peers.foldl (fun acc p => match decodePk p.2.1 with
    | some b => alPut acc b p.1
    | none => acc) acc

/-- `InitConfig` (delays and VRF strings of the configuration are fixed valid values in the harness). -/
def initConfig (s : State) (mbcv : Nat) (peers : List (Nat × String × Addr)) : M Plan :=
  if s.gv.isSome then .error .err else
  if dupIdx peers || dupPk peers then .error .err else
  if peers.any (fun p => p.1 = 0 || (addrOfPk s p.2.1).isNone) then .error .err else
  let items := peers.map (fun p => ({ index := p.1, pk := p.2.1, addr := p.2.2, status := .cons } : PeerItem))
  let pidx := pidxFold s.pidx peers
  let maxId := peers.foldl (fun m p => if p.1 > m then p.1 else m) 0
  let cfg : Config := { blockMsgDelay := 10000, hashMsgDelay := 10000, peerHandshakeTimeout := 10, maxBlockChangeView := mbcv }
  .ok (.done { st := { s with pools := alPut (alPut s.pools 0 items) 1 items, pidx := pidx, candIndex := some (maxId + 1),
                              gv := some { view := 1, height := s.height }, cfg := some cfg },
               ret := "1", events := [] })

/-- `RegisterCandidate`. `State.keys` holds the canonical serializations of the valid keys, so a string that is valid
here is canonical (the Go code rejects the other encodings of a key explicitly); pool membership is decided on the
public keys (all pool keys are canonical: they entered through this method or, by assumption, through the genesis
configuration). -/
def registerCandidate (s : State) (signers : List Addr) (pk : String) (addr : Addr) : M Plan :=
  if !witness signers addr then .error .err else
  if (addrOfPk s pk).isNone then .error .err else
  match decodePk pk with
  | none => .error .err
  | some kb =>
    if alHas s.black kb then .error .err else
    if alHas s.apply kb then .error .err else
    match curPool s with
    | none => .error .err
    | some (_, pool) =>
      if pool.any (fun it => (addrOfPk s it.pk).isNone || decodePk it.pk == some kb) then .error .err else
      .ok (.done { st := { s with apply := alPut s.apply kb (pk, addr) }, ret := "1", events := ["registerCandidate"] })

/-- Index of an approved candidate: the one recorded for its key, otherwise the next free one (which is recorded). -/
def allocIndex (s1 : State) (akb : Bytes) : Option (Nat × State) :=
  match alGet s1.pidx akb with
  | some i => some (i, s1)
  | none => match s1.candIndex with
    | none => none
    | some ci => some (ci, { s1 with candIndex := some (ci + 1), pidx := alPut s1.pidx akb ci })

/-- The action of `ApproveCandidate` once approved (`key` = the public key string of the approver's parameters, under
which the Go code stores the map entry; `apk`, `aaddr` = the pending request). -/
def candidateEffect (key apk : String) (aaddr : Addr) (s1 : State) : M (State × String) :=
  match decodePk apk with
  | none => .error .err
  | some akb =>
    match allocIndex s1 akb with
    | none => .error .err
    | some (idx, s2) =>
      match curPool s2 with
      | none => .error .err
      | some (gv, pool) =>
        .ok ({ s2 with pools := alPut s2.pools gv.view (poolInsert pool key { index := idx, pk := apk, addr := aaddr, status := .cand }),
                       apply := alErase s2.apply akb }, "approveCandidate")

/-- second loop of `BlackNode`: blacklist records, status change, whether a consensus member was hit. -/
def blackLoop : List String → List PeerItem → List (Bytes × (String × Addr)) → Bool →
    Option (List PeerItem × List (Bytes × (String × Addr)) × Bool)
  | [], pool, bl, commit => some (pool, bl, commit)
  | pk :: rest, pool, bl, commit =>
    match decodePk pk with
    | none => none
    | some kb =>
      match poolFind pool pk with
      | none => none
      | some it =>
        blackLoop rest (poolSetStatus pool pk .black) (alPut bl kb (it.pk, it.addr)) (commit || decide (it.status = .cons))

/-- The action of `BlackNode` once approved (`gv`, `pool` were read before the approval was counted). -/
def blackEffect (gv : GovView) (pool : List PeerItem) (pks : List String) (s1 : State) : M (State × String) :=
  match blackLoop pks pool s1.black false with
  | none => .error .err
  | some (pool', bl, commit) =>
    if commit then
      match executeCommitDpos { s1 with pools := alPut s1.pools gv.view pool', black := bl } with
      | .error e => .error e
      | .ok s3 => .ok (s3, "blackNode")
    else .ok ({ s1 with pools := alPut s1.pools gv.view pool', black := bl }, "blackNode")

/-- `GetCurConOperator` succeeds (the address itself is an oracle value of the op line). -/
def operatorOk (s : State) : Bool :=
  match curPool s with
  | none => false
  | some (_, pool) =>
    match consAddrs s pool with
    | none => false
    | some cons => decide (1 ≤ cons.length ∧ cons.length ≤ 16)

/-- insertion sort, descending (`sort.SliceStable` with `Cmp >= 1` on the proposed fees) -/
def insertDesc (x : Nat) : List Nat → List Nat
  | [] => [x]
  | y :: t => if x ≥ y then x :: y :: t else y :: insertDesc x t

def sortDesc (l : List Nat) : List Nat := l.foldr insertDesc []

/-- the fee installed at the quorum: five times the median of all proposals of the view -/
def medianFee (vals : List Nat) : Nat :=
  let l := sortDesc vals
  if l.length % 2 = 0 then ((l.getD (l.length / 2) 0 + l.getD (l.length / 2 - 1) 0) * 5) / 2
  else l.getD ((l.length - 1) / 2) 0 * 5

/-- `m[addr] = fee` on the proposals of a view -/
def feePut (l : List (Addr × Nat)) (a : Addr) (v : Nat) : List (Addr × Nat) := alPut l a v

/-- What `UpdateFee` records before it counts the vote: the proposal joins the proposals of the view; a view whose
first proposal is older than 300 s is abandoned (the view advances, the proposals start afresh). -/
structure FeeRound where
  fv : Nat
  fees : List (Nat × (Nat × Nat))
  infos : List ((Nat × Nat) × (Nat × List (Addr × Nat)))
  entries : List (Addr × Nat)

def feeRound (s : State) (a : Addr) (chain view fee : Nat) : FeeRound :=
  let ff := ((alGet s.fees chain).getD (0, 0)).2
  let info := (alGet s.feeInfos (chain, view)).getD (0, [])
  let expired := decide (info.1 ≠ 0) && decide (wrapSub32 s.time info.1 > 300)
  let fv := if expired then view + 1 else view
  let start := if info.1 = 0 || expired then s.time else info.1
  let entries := feePut (if expired then [] else info.2) a fee
  { fv := fv, fees := if expired then alPut s.fees chain (view + 1, ff) else s.fees,
    infos := alPut s.feeInfos (chain, fv) (start, entries), entries := entries }

/-- `TxActor.isValidSender`: some signer is a registered relayer or a permitted address. -/
def admits (s : State) (signers : List Addr) : Bool :=
  signers.any (fun a => s.relayers.contains a || s.permitted.contains a)

inductive Op
  | key (pk : Bytes) (addr : Addr)
  | height (h : Nat)
  | time (t : Nat)
  /-- side_chain_manager.UpdateFee: validator `addr` proposes `fee` for `chain` in fee view `view` -/
  | fee (signers : List Addr) (addr : Addr) (chain view fee : Nat)
  | init (mbcv : Nat) (peers : List (Nat × String × Addr))
  | reg (signers : List Addr) (pk : String) (addr : Addr)
  | unreg (signers : List Addr) (pk : String) (addr : Addr)
  | appr (signers : List Addr) (pk : String) (addr : Addr)
  | white (signers : List Addr) (pk : String) (addr : Addr)
  | quit (signers : List Addr) (pk : String) (addr : Addr)
  | black (signers : List Addr) (addr : Addr) (pks : List String)
  | commit (signers : List Addr) (operator : Addr)
  | updcfg (signers : List Addr) (operator : Addr) (c : Config)
  | screg (signers : List Addr) (r : SideChain)
  | scupd (signers : List Addr) (r : SideChain)
  | scappr (signers : List Addr) (id : Nat) (addr : Addr)
  | scapprupd (signers : List Addr) (id : Nat) (addr : Addr)
  | scquit (signers : List Addr) (id : Nat) (addr : Addr)
  | scapprquit (signers : List Addr) (id : Nat) (addr : Addr)
  | rlreg (signers : List Addr) (addr : Addr) (l : List Addr)
  | rlrm (signers : List Addr) (addr : Addr) (l : List Addr)
  | rlappr (signers : List Addr) (id : Nat) (addr : Addr)
  | rlapprrm (signers : List Addr) (id : Nat) (addr : Addr)
  | svreg (signers : List Addr) (addr : Addr) (l : List String)
  | svrm (signers : List Addr) (addr : Addr) (l : List String)
  | svappr (signers : List Addr) (id : Nat) (addr : Addr)
  | svapprrm (signers : List Addr) (id : Nat) (addr : Addr)
  | vote (id : Bytes) (addr : Addr)
  | sig (signers : List Addr) (addr : Addr) (subject sig : Bytes)
  /-- consensus_vote.VoteHandler.MakeDepositProposal: a vote of relayer `relayer` (a validator) for the source
  transaction with vote id `id` (SHA-256 of source chain id, height and payload: an oracle value of the op line);
  `ccid` is the cross chain id in the payload (`none`: the payload does not decode); `cont`: the handler's continuation
  after the done-transaction mark succeeds (always for the vote handler; for ripple_handler.MakeDepositProposal, which
  runs the same vote phase, the asset-binding lookups and the decoding of the arguments: an oracle value) -/
  | deposit (signers : List Addr) (relayer : Addr) (chain : Nat) (id : Bytes) (ccid : Option Bytes) (cont : Bool)
  /-- txnpool/proc: is a transaction signed by `signers` admitted? -/
  | submit (signers : List Addr)
  /-- txnpool/proc updatePermittedAddrMap (`operator`: multi-signature address of all pool members, an oracle value;
  `none` when it cannot be formed) -/
  | refresh (operator : Option Addr)
  /-- node restart: the permitted cache is empty again -/
  | restart

section
variable (H : Bytes → Bytes)

/-- What the transaction `op` is going to do in state `s` (all guards of the handlers up to the approval call). -/
def plan (s : State) : Op → M Plan
  | .key pk a => .ok (.done { st := { s with keys := alPut s.keys pk a }, ret := "", events := [] })
  | .height h => .ok (.done { st := { s with height := h }, ret := "", events := [] })
  | .time t => .ok (.done { st := { s with time := t }, ret := "", events := [] })
  -- side_chain_manager.UpdateFee: proposal recorded, view bumped after 300 s without quorum, CheckVotes on
  -- "updateFee" ‖ chain ‖ view, at the quorum five times the median of the proposals is installed and the view advances
  | .fee sg a chain view fee =>
    if !witness sg a then .error .err else
    if ((alGet s.fees chain).getD (0, 0)).1 ≠ view then .error .err else
    let id := strBytes "updateFee" ++ u64le chain ++ u64le (feeRound s a chain view fee).fv
    if ((alGet s.votes id).getD (false, [])).1 then
      .ok (.done { st := { s with fees := (feeRound s a chain view fee).fees, feeInfos := (feeRound s a chain view fee).infos },
                   ret := "1", events := [] }) else
    match curPool s with
    | none => .error .err
    | some (_, pool) =>
      match consAddrs s pool with
      | none => .error .err
      | some cons =>
        match voteStep ((alGet s.votes id).getD (false, [])) cons a with
        | none => .error .err
        | some (vinfo, false) =>
          .ok (.done { st := { s with fees := (feeRound s a chain view fee).fees, feeInfos := (feeRound s a chain view fee).infos,
                                      votes := alPut s.votes id vinfo }, ret := "1", events := [] })
        | some (vinfo, true) =>
          .ok (.done { st := { s with fees := alPut (feeRound s a chain view fee).fees chain
                                                ((feeRound s a chain view fee).fv + 1, medianFee ((feeRound s a chain view fee).entries.map (·.2))),
                                      feeInfos := (feeRound s a chain view fee).infos,
                                      votes := alPut s.votes id vinfo }, ret := "1", events := [] })
  | .init mbcv peers => initConfig s mbcv peers
  | .reg sg pk a => registerCandidate s sg pk a
  -- UnRegisterCandidate
  | .unreg sg pk a =>
    if !witness sg a then .error .err else
    match decodePk pk with
    | none => .error .err
    | some kb =>
      match alGet s.apply kb with
      | none => .error .err
      | some (apk, aaddr) =>
        if aaddr ≠ a then .error .err else
        .ok (.done { st := clearSigns H { s with apply := alErase s.apply kb } "approveCandidate" (strBytes apk),
                     ret := "1", events := ["unRegisterCandidate"] })
  -- ApproveCandidate
  | .appr sg pk a =>
    if !witness sg a then .error .err else
    match decodePk pk with
    | none => .error .err
    | some kb =>
      match alGet s.apply kb with
      | none => .error .err
      | some (apk, aaddr) =>
        .ok (.approve { method := "approveCandidate", input := strBytes apk, addr := a, retNo := "1",
                        onFire := candidateEffect pk apk aaddr })
  -- WhiteNode
  | .white sg pk a =>
    if !witness sg a then .error .err else
    match decodePk pk with
    | none => .error .err
    | some kb =>
      if !alHas s.black kb then .error .err else
      .ok (.approve { method := "whiteNode", input := strBytes pk, addr := a, retNo := "1",
                      onFire := fun s1 => .ok ({ s1 with black := alErase s1.black kb }, "whiteNode") })
  -- QuitNode
  | .quit sg pk a =>
    if !witness sg a then .error .err else
    match curPool s with
    | none => .error .err
    | some (gv, pool) =>
      match poolFind pool pk with
      | none => .error .err
      | some it =>
        if !it.status.active then .error .err else
        if a ≠ it.addr then .error .err else
        if activeCount pool ≤ 4 then .error .err else
        .ok (.done { st := { s with pools := alPut s.pools gv.view (poolSetStatus pool pk .quit) }, ret := "1", events := ["quitNode"] })
  -- BlackNode
  | .black sg a pks =>
    if !witness sg a then .error .err else
    match curPool s with
    | none => .error .err
    | some (gv, pool) =>
      if activeCount pool + 1 ≤ 4 + pks.length then .error .err else
      if pks.any (fun pk => match poolFind pool pk with
          | none => true
          | some it => decide (it.status = .black)) then .error .err else
      .ok (.approve { method := "blackNode", input := pks.flatMap strBytes, addr := a, retNo := "1",
                      onFire := blackEffect gv pool pks })
  -- CommitDpos
  | .commit sg operator =>
    match s.cfg, s.gv with
    | some cfg, some gv =>
      if !operatorOk s then .error .err else
      if !witness sg operator && !(decide (wrapSub32 s.height gv.height ≥ cfg.maxBlockChangeView)) then .error .err else
      match executeCommitDpos s with
      | .error e => .error e
      | .ok s1 => .ok (.done { st := s1, ret := "1", events := ["commitDpos"] })
    | _, _ => .error .err
  -- UpdateConfig
  | .updcfg sg operator c =>
    if !operatorOk s then .error .err else
    if !witness sg operator then .error .err else
    if c.blockMsgDelay < 5000 || c.hashMsgDelay < 5000 || c.peerHandshakeTimeout < 10 || c.maxBlockChangeView < 10000 then .error .err else
    .ok (.done { st := { s with cfg := some c }, ret := "1", events := ["updateConfig"] })
  -- RegisterSideChain
  | .screg sg r =>
    if r.btw = 0 then .error .err else
    if !witness sg r.addr then .error .err else
    if alHas s.scApply r.chainId then .error .err else
    if alHas s.sc r.chainId then .error .err else
    .ok (.done { st := { s with scApply := alPut s.scApply r.chainId r }, ret := "1", events := ["RegisterSideChain"] })
  -- ApproveRegisterSideChain
  | .scappr sg id a =>
    if !witness sg a then .error .err else
    match alGet s.scApply id with
    | none => .error .err
    | some req =>
      .ok (.approve { method := "approveRegisterSideChain", input := u64le id, addr := a, retNo := "1",
                      onFire := fun s1 => .ok ({ s1 with sc := alPut s1.sc req.chainId req, scApply := alErase s1.scApply id },
                                                "ApproveRegisterSideChain") })
  -- UpdateSideChain
  | .scupd sg r =>
    if r.btw = 0 then .error .err else
    if !witness sg r.addr then .error .err else
    match alGet s.sc r.chainId with
    | none => .error .err
    | some cur =>
      if cur.addr ≠ r.addr then .error .err else
      .ok (.done { st := clearSigns H { s with scUpd := alPut s.scUpd r.chainId r } "approveUpdateSideChain" (u64le r.chainId),
                   ret := "1", events := ["UpdateSideChain"] })
  -- ApproveUpdateSideChain
  | .scapprupd sg id a =>
    if !witness sg a then .error .err else
    match alGet s.scUpd id with
    | none => .error .err
    | some req =>
      .ok (.approve { method := "approveUpdateSideChain", input := u64le id, addr := a, retNo := "1",
                      onFire := fun s1 => .ok ({ s1 with sc := alPut s1.sc req.chainId req, scUpd := alErase s1.scUpd id },
                                                "ApproveUpdateSideChain") })
  -- QuitSideChain
  | .scquit sg id a =>
    if !witness sg a then .error .err else
    match alGet s.sc id with
    | none => .error .err
    | some cur =>
      if cur.addr ≠ a then .error .err else
      .ok (.done { st := { s with scQuit := if s.scQuit.contains id then s.scQuit else s.scQuit ++ [id] }, ret := "1", events := ["QuitSideChain"] })
  -- ApproveQuitSideChain
  | .scapprquit sg id a =>
    if !witness sg a then .error .err else
    if !s.scQuit.contains id then .error .err else
    .ok (.approve { method := "quitSideChain", input := u64le id, addr := a, retNo := "1",
                    onFire := fun s1 => .ok ({ s1 with scQuit := s1.scQuit.filter (fun x => decide (x ≠ id)),
                                                       scUpd := alErase s1.scUpd id, sc := alErase s1.sc id },
                                              "ApproveQuitSideChain") })
  -- RegisterRelayer
  | .rlreg sg a l =>
    if !witness sg a then .error .err else
    .ok (.done { st := { s with rlApplyId := some (s.rlApplyId.getD 0 + 1), rlApply := alPut s.rlApply (s.rlApplyId.getD 0) (l, a) },
                 ret := "1", events := ["putRelayerApply"] })
  -- ApproveRegisterRelayer
  | .rlappr sg id a =>
    if !witness sg a then .error .err else
    match alGet s.rlApply id with
    | none => .error .err
    | some (l, _) =>
      .ok (.approve { method := "approveRegisterRelayer", input := u64le id, addr := a, retNo := "1",
                      onFire := fun s1 => .ok ({ s1 with relayers := l.foldl addOnce s1.relayers, rlApply := alErase s1.rlApply id },
                                                "ApproveRegisterRelayer") })
  -- RemoveRelayer
  | .rlrm sg a l =>
    if !witness sg a then .error .err else
    .ok (.done { st := { s with rlRemoveId := some (s.rlRemoveId.getD 0 + 1), rlRemove := alPut s.rlRemove (s.rlRemoveId.getD 0) (l, a) },
                 ret := "1", events := ["putRelayerRemove"] })
  -- ApproveRemoveRelayer
  | .rlapprrm sg id a =>
    if !witness sg a then .error .err else
    match alGet s.rlRemove id with
    | none => .error .err
    | some (l, _) =>
      .ok (.approve { method := "approveRemoveRelayer", input := u64le id, addr := a, retNo := "1",
                      onFire := fun s1 => .ok ({ s1 with relayers := s1.relayers.filter (fun x => !l.contains x), rlRemove := alErase s1.rlRemove id },
                                                "ApproveRemoveRelayer") })
  -- RegisterStateValidator
  | .svreg sg a l =>
    if !witness sg a then .error .err else
    .ok (.done { st := { s with svApplyId := some (s.svApplyId.getD 0 + 1), svApply := alPut s.svApply (s.svApplyId.getD 0) (l, a) },
                 ret := "1", events := ["putStateValidatorApply"] })
  -- ApproveRegisterStateValidator
  | .svappr sg id a =>
    if !witness sg a then .error .err else
    match alGet s.svApply id with
    | none => .error .err
    | some (l, _) =>
      .ok (.approve { method := "approveRegisterStateValidator", input := u64le id, addr := a, retNo := "0",
                      onFire := fun s1 =>
                        .ok ({ s1 with svs := some (s1.svs.getD [] ++ l.filter (fun x => !(s1.svs.getD []).contains x)),
                                       svApply := alErase s1.svApply id }, "ApproveRegisterStateValidator") })
  -- RemoveStateValidator
  | .svrm sg a l =>
    if !witness sg a then .error .err else
    .ok (.done { st := { s with svRemoveId := some (s.svRemoveId.getD 0 + 1), svRemove := alPut s.svRemove (s.svRemoveId.getD 0) (l, a) },
                 ret := "1", events := ["putStateValidatorRemove"] })
  -- ApproveRemoveStateValidator
  | .svapprrm sg id a =>
    if !witness sg a then .error .err else
    match alGet s.svRemove id with
    | none => .error .err
    | some (l, _) =>
      .ok (.approve { method := "approveRemoveStateValidator", input := u64le id, addr := a, retNo := "0",
                      onFire := fun s1 =>
                        .ok ({ s1 with svs := if (l.foldl (fun acc x => acc.erase x) (s1.svs.getD [])).isEmpty then none
                                              else some (l.foldl (fun acc x => acc.erase x) (s1.svs.getD [])),
                                       svRemove := alErase s1.svRemove id }, "ApproveRemoveStateValidator") })
  -- consensus_vote.CheckVotes (the released flag is tested before the pool is read)
  | .vote id a =>
    if ((alGet s.votes id).getD (false, [])).1 then .ok (.done { st := s, ret := "0", events := [] }) else
    match curPool s with
    | none => .error .err
    | some (_, pool) =>
      match consAddrs s pool with
      | none => .error .err
      | some cons =>
        match voteStep ((alGet s.votes id).getD (false, [])) cons a with
        | none => .error .err
        | some (info, released) =>
          .ok (.done { st := { s with votes := alPut s.votes id info }, ret := if released then "1" else "0", events := [] })
  -- VoteHandler.MakeDepositProposal: witness, CheckVotes, and on release the payload must decode and must not be done
  | .deposit sg relayer chain id ccid cont =>
    if !witness sg relayer then .error .err else
    if ((alGet s.votes id).getD (false, [])).1 then .ok (.done { st := s, ret := "0", events := [] }) else
    match curPool s with
    | none => .error .err
    | some (_, pool) =>
      match consAddrs s pool with
      | none => .error .err
      | some cons =>
        match voteStep ((alGet s.votes id).getD (false, [])) cons relayer with
        | none => .error .err
        | some (info, false) => .ok (.done { st := { s with votes := alPut s.votes id info }, ret := "0", events := [] })
        | some (info, true) =>
          match ccid with
          | none => .error .err
          | some c =>
            if s.doneTx.contains (chain, c) then .error .err else
            if !cont then .error .err else
            .ok (.done { st := { s with votes := alPut s.votes id info, doneTx := s.doneTx ++ [(chain, c)] }, ret := "1", events := [] })
  -- signature_manager.AddSignature / CheckSigns
  | .sig sg a subject sig =>
    if !witness sg a then .error .err else
    match curPool s with
    | none => .error .err
    | some (_, pool) =>
      match consAddrs s pool with
      | none => .error .err
      | some cons =>
        match sigStep ((alGet s.sigs (H subject)).getD (false, [])) cons a sig with
        | none => .error .err
        | some (info, emit) =>
          .ok (.done { st := { s with sigs := alPut s.sigs (H subject) info }, ret := "1",
                       events := if emit then ["AddSignatureQuorum"] else [] })
  -- transaction pool admission (reads the relayer registry and the permitted cache; no chain state changes)
  | .submit sg => .ok (.done { st := s, ret := if admits s sg then "1" else "0", events := [] })
  -- bactor.UpdatePermittedAddrMap: every member of the pool of the current view (whatever its status) and their
  -- multi-signature address become permitted; nothing is ever removed
  | .refresh operator =>
    match curPool s with
    | none => .error .err
    | some (_, pool) =>
      match pool.mapM (fun it => addrOfPk s it.pk) with
      | none => .error .err
      | some addrs =>
        match operator with
        | none => .ok (.done { st := { s with permitted := addrs.foldl addOnce s.permitted }, ret := "0", events := [] })
        | some o => .ok (.done { st := { s with permitted := addOnce (addrs.foldl addOnce s.permitted) o }, ret := "1", events := [] })
  | .restart => .ok (.done { st := { s with permitted := [] }, ret := "", events := [] })

/-- Carrying out a plan: an approval goes through `CheckConsensusSigns`; the action is applied iff the quorum is reached. -/
def runPlan (s : State) : Plan → M Out
  | .done o => .ok o
  | .approve ap =>
    match checkConsensusSigns H s ap.method ap.input ap.addr with
    | .error e => .error e
    | .ok (s1, false, ev) => .ok { st := s1, ret := ap.retNo, events := [ev] }
    | .ok (s1, true, ev) =>
      match ap.onFire s1 with
      | .error e => .error e
      | .ok (s2, name) => .ok { st := s2, ret := "1", events := [ev, name] }

/-- One transaction: the handler's verdict. -/
def exec (s : State) (op : Op) : M Out :=
  match plan H s op with
  | .error e => .error e
  | .ok p => runPlan H s p

/-- State after the transaction: unchanged when the handler fails (nothing is committed). -/
def step (s : State) (op : Op) : State :=
  match exec H s op with
  | .ok o => o.st
  | .error _ => s

def run (s : State) : List Op → State
  | [] => s
  | op :: rest => run (step H s op) rest
end

end Poly.Model.Gov
