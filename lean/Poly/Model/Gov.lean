import Poly.Util.Hex
import Poly.Generated.Thresholds
/-!
# Governance model (L4): node manager, side-chain / relayer / state-validator registries, quorum ledgers

Executable model of
  native/service/governance/node_manager        (all nine methods, CheckConsensusSigns, executeCommitDpos)
  native/service/governance/side_chain_manager  (register / update / quit requests and their approvals)
  native/service/governance/relayer_manager     (register / remove requests and their approvals)
  native/service/governance/neo3_state_manager  (register / remove requests and their approvals)
  native/service/governance/signature_manager   (AddSignature, CheckSigns)
  native/service/cross_chain_manager/consensus_vote (CheckVotes)
over an abstract store: one association list per key prefix of the Go code (the record kinds are the prefixes).
One `Op` is one transaction: the state changes only when the handler returns no error (tx_handler.go commits the
cache only then). The hash of the approval ledgers' key and the public-key -> address map are parameters
(`H`, `State.keys`); the thresholds are the generated definitions (extract/thresholds).
Go maps: the pool is stored as the list of its items (the map key is the item's public key string after every
reload); every loop over it that the model needs is a count, a filter or a pointwise update, hence order free.
-/
namespace Poly.Model.Gov
open Poly.Generated.Thresholds

abbrev Bytes := List UInt8
abbrev Addr := Bytes

/-! ## Association lists (one per key prefix of the contracts) -/

def alGet {κ ν : Type} [DecidableEq κ] : List (κ × ν) → κ → Option ν
  | [], _ => none
  | (k', v) :: t, k => if k' = k then some v else alGet t k

def alErase {κ ν : Type} [DecidableEq κ] (l : List (κ × ν)) (k : κ) : List (κ × ν) :=
  l.filter (fun p => decide (p.1 ≠ k))

def alPut {κ ν : Type} [DecidableEq κ] (l : List (κ × ν)) (k : κ) (v : ν) : List (κ × ν) :=
  alErase l k ++ [(k, v)]

def alHas {κ ν : Type} [DecidableEq κ] (l : List (κ × ν)) (k : κ) : Bool := (alGet l k).isSome

/-! ## Records -/

inductive Status | cand | cons | quit | black
deriving DecidableEq, Repr, Inhabited

def Status.code : Status → Nat
  | .cand => 0 | .cons => 1 | .quit => 2 | .black => 3

def Status.active : Status → Bool
  | .cand => true | .cons => true | _ => false

structure PeerItem where
  index : Nat
  pk : String
  addr : Addr
  status : Status
deriving DecidableEq, Repr

structure SideChain where
  addr : Addr
  chainId : Nat
  router : Nat
  name : Bytes
  btw : Nat
  ccmc : Bytes
  extra : Bytes
deriving DecidableEq, Repr

structure Config where
  blockMsgDelay : Nat
  hashMsgDelay : Nat
  peerHandshakeTimeout : Nat
  maxBlockChangeView : Nat
deriving DecidableEq, Repr

structure GovView where
  view : Nat
  height : Nat
deriving DecidableEq, Repr

structure State where
  /-- environment: serialized public keys that deserialize and are VRF valid, with their address -/
  keys : List (Bytes × Addr) := []
  /-- height of the block the next transactions are in -/
  height : Nat := 1
  -- node manager (contract ..05)
  gv : Option GovView := none
  candIndex : Option Nat := none
  cfg : Option Config := none
  pools : List (Nat × List PeerItem) := []
  apply : List (Bytes × (String × Addr)) := []
  pidx : List (Bytes × Nat) := []
  black : List (Bytes × (String × Addr)) := []
  signs : List (Bytes × List Addr) := []
  -- side chain manager (..04)
  scApply : List (Nat × SideChain) := []
  scUpd : List (Nat × SideChain) := []
  scQuit : List Nat := []
  sc : List (Nat × SideChain) := []
  -- relayer manager (..06)
  relayers : List Addr := []
  rlApply : List (Nat × (List Addr × Addr)) := []
  rlRemove : List (Nat × (List Addr × Addr)) := []
  rlApplyId : Option Nat := none
  rlRemoveId : Option Nat := none
  -- neo3 state manager (..07)
  svs : Option (List String) := none
  svApply : List (Nat × (List String × Addr)) := []
  svRemove : List (Nat × (List String × Addr)) := []
  svApplyId : Option Nat := none
  svRemoveId : Option Nat := none
  -- signature manager (..08) and vote ledgers of the cross chain manager (..03)
  sigs : List (Bytes × (Bool × List (Addr × Bytes))) := []
  votes : List (Bytes × (Bool × List Addr)) := []

inductive Fail | err | panic
deriving DecidableEq, Repr

structure Out where
  st : State
  ret : String
  events : List String

abbrev M := Except Fail

/-! ## Helpers mirroring the Go helpers -/

def strBytes (s : String) : Bytes := s.toUTF8.toList

/-- `utils.GetUint64Bytes` (little endian). -/
def u64le (n : Nat) : Bytes := (List.range 8).map (fun i => UInt8.ofNat ((n >>> (8 * i)) % 256))

/-- `hex.DecodeString` (both cases accepted, odd length or other characters rejected). -/
def decodePk (s : String) : Option Bytes := Poly.Hex.ofHexChars s.toList

/-- hex decode, `keypair.DeserializePublicKey`, `types.AddressFromPubKey`. -/
def addrOfPk (s : State) (pk : String) : Option Addr :=
  match decodePk pk with
  | none => none
  | some b => alGet s.keys b

def witness (signers : List Addr) (a : Addr) : Bool := signers.contains a

def poolFind (p : List PeerItem) (pk : String) : Option PeerItem := p.find? (fun it => decide (it.pk = pk))

def poolSetStatus (p : List PeerItem) (pk : String) (st : Status) : List PeerItem :=
  p.map (fun it => if it.pk = pk then { it with status := st } else it)

/-- `m[key] = item` followed by the store: the entry stored under `key` is replaced. -/
def poolInsert (p : List PeerItem) (key : String) (item : PeerItem) : List PeerItem :=
  p.filter (fun it => decide (it.pk ≠ key)) ++ [item]

def activeCount (p : List PeerItem) : Nat := (p.filter (fun it => it.status.active)).length

def consItems (p : List PeerItem) : List PeerItem := p.filter (fun it => decide (it.status = .cons))

/-- Addresses of the consensus members, one per pool entry (`none`: a stored key does not decode). -/
def consAddrs (s : State) (p : List PeerItem) : Option (List Addr) := (consItems p).mapM (fun it => addrOfPk s it.pk)

def curPool (s : State) : Option (GovView × List PeerItem) :=
  match s.gv with
  | none => none
  | some gv => match alGet s.pools gv.view with
    | none => none
    | some p => some (gv, p)

def countIn (l : List Addr) (set : List Addr) : Nat := (l.filter (fun a => set.contains a)).length

def addOnce (l : List Addr) (a : Addr) : List Addr := if l.contains a then l else l ++ [a]

section
variable (H : Bytes → Bytes)

def ledgerKey (method : String) (input : Bytes) : Bytes := H (strBytes method ++ input)

/-- `node_manager.CheckConsensusSigns`: returns the new state, whether the quorum is reached, and the notification. -/
def checkConsensusSigns (s : State) (method : String) (input : Bytes) (a : Addr) : M (State × Bool × String) :=
  let key := ledgerKey H method input
  let signers := addOnce ((alGet s.signs key).getD []) a
  let ev := "CheckConsensusSigns:" ++ toString signers.length
  match curPool s with
  | none => .error .err
  | some (_, pool) =>
    match consAddrs s pool with
    | none => .error .err
    | some cons =>
      if nodemgr_CheckConsensusSigns0 (countIn cons signers : Nat) (cons.length : Nat) then
        .ok ({ s with signs := alErase s.signs key }, true, ev)
      else
        .ok ({ s with signs := alPut s.signs key signers }, false, ev)

/-- `ClearConsensusSigns`. -/
def clearSigns (s : State) (method : String) (input : Bytes) : State :=
  { s with signs := alErase s.signs (ledgerKey H method input) }

/-! ## Node manager -/

def wrapSub32 (a b : Nat) : Nat := (a + 4294967296 - b % 4294967296) % 4294967296

/-- `executeCommitDpos`. -/
def executeCommitDpos (s : State) : M State :=
  match curPool s with
  | none => .error .err
  | some (gv, pool) =>
    if s.height = gv.height then .error .err else
    let pool' := (pool.filter (fun it => it.status.active)).map (fun it => { it with status := Status.cons })
    let oldView := wrapSub32 gv.view 1
    .ok { s with pools := alErase (alPut s.pools (gv.view + 1) pool') oldView,
                 gv := some { view := gv.view + 1, height := s.height } }

def dupIdx : List (Nat × String × Addr) → Bool
  | [] => false
  | p :: t => t.any (fun q => q.1 = p.1) || dupIdx t

def dupPk : List (Nat × String × Addr) → Bool
  | [] => false
  | p :: t => t.any (fun q => q.2.1 = p.2.1) || dupPk t

/-- `InitConfig` (delays and VRF strings of the configuration are fixed valid values in the harness). -/
def initConfig (s : State) (mbcv : Nat) (peers : List (Nat × String × Addr)) : M Out :=
  if s.gv.isSome then .error .err else
  if dupIdx peers || dupPk peers then .error .err else
  if peers.any (fun p => p.1 = 0 || (addrOfPk s p.2.1).isNone) then .error .err else
  let items := peers.map (fun p => ({ index := p.1, pk := p.2.1, addr := p.2.2, status := .cons } : PeerItem))
  let pidx := peers.foldl (fun acc p => match decodePk p.2.1 with
    | some b => alPut acc b p.1
    | none => acc) s.pidx
  let maxId := peers.foldl (fun m p => if p.1 > m then p.1 else m) 0
  .ok { st := { s with pools := alPut (alPut s.pools 0 items) 1 items, pidx := pidx, candIndex := some (maxId + 1),
                       gv := some { view := 1, height := s.height },
                       cfg := some { blockMsgDelay := 10000, hashMsgDelay := 10000, peerHandshakeTimeout := 10, maxBlockChangeView := mbcv } },
        ret := "1", events := [] }

/-- `RegisterCandidate`. `State.keys` holds the canonical serializations of the valid keys, so a string that is valid
here is canonical (the Go code rejects the other encodings of a key explicitly); pool membership is decided on the
public keys (all pool keys are canonical: they entered through this method or, by assumption, through the genesis
configuration). -/
def registerCandidate (s : State) (signers : List Addr) (pk : String) (addr : Addr) : M Out :=
  if !witness signers addr then .error .err else
  if (addrOfPk s pk).isNone then .error .err else
  match decodePk pk with
  | none => .error .err
  | some kb =>
    if alHas s.black kb then .error .err else
    if alHas s.apply kb then .error .err else
    match curPool s with
    | none => .error .err
    | some (_, pool) =>
      if pool.any (fun it => (addrOfPk s it.pk).isNone || decodePk it.pk == some kb) then .error .err else
      .ok { st := { s with apply := alPut s.apply kb (pk, addr) }, ret := "1", events := ["registerCandidate"] }

/-- `UnRegisterCandidate`. -/
def unRegisterCandidate (s : State) (signers : List Addr) (pk : String) (addr : Addr) : M Out :=
  if !witness signers addr then .error .err else
  match decodePk pk with
  | none => .error .err
  | some kb =>
    match alGet s.apply kb with
    | none => .error .err
    | some (apk, aaddr) =>
      if aaddr ≠ addr then .error .err else
      let s1 := { s with apply := alErase s.apply kb }
      .ok { st := clearSigns H s1 "approveCandidate" (strBytes apk), ret := "1", events := ["unRegisterCandidate"] }

/-- `ApproveCandidate`. -/
def approveCandidate (s : State) (signers : List Addr) (pk : String) (addr : Addr) : M Out :=
  if !witness signers addr then .error .err else
  match decodePk pk with
  | none => .error .err
  | some kb =>
    match alGet s.apply kb with
    | none => .error .err
    | some (apk, aaddr) =>
      match checkConsensusSigns H s "approveCandidate" (strBytes apk) addr with
      | .error e => .error e
      | .ok (s1, false, ev) => .ok { st := s1, ret := "1", events := [ev] }
      | .ok (s1, true, ev) =>
        match decodePk apk with
        | none => .error .err
        | some akb =>
          let idxRes : Option (Nat × State) :=
            match alGet s1.pidx akb with
            | some i => some (i, s1)
            | none => match s1.candIndex with
              | none => none
              | some ci => some (ci, { s1 with candIndex := some (ci + 1), pidx := alPut s1.pidx akb ci })
          match idxRes with
          | none => .error .err
          | some (idx, s2) =>
            match curPool s2 with
            | none => .error .err
            | some (gv, pool) =>
              let item : PeerItem := { index := idx, pk := apk, addr := aaddr, status := .cand }
              .ok { st := { s2 with pools := alPut s2.pools gv.view (poolInsert pool pk item), apply := alErase s2.apply akb },
                    ret := "1", events := [ev, "approveCandidate"] }

/-- second loop of `BlackNode`: blacklist records, status change, whether a consensus member was hit. -/
def blackLoop : List String → List PeerItem → List (Bytes × (String × Addr)) → Bool →
    Option (List PeerItem × List (Bytes × (String × Addr)) × Bool)
  | [], pool, bl, commit => some (pool, bl, commit)
  | pk :: rest, pool, bl, commit =>
    match decodePk pk with
    | none => none
    | some kb =>
      match poolFind pool pk with
      | none => none
      | some it =>
        blackLoop rest (poolSetStatus pool pk .black) (alPut bl kb (it.pk, it.addr)) (commit || decide (it.status = .cons))

/-- `BlackNode`. -/
def blackNode (s : State) (signers : List Addr) (addr : Addr) (pks : List String) : M Out :=
  if !witness signers addr then .error .err else
  match curPool s with
  | none => .error .err
  | some (gv, pool) =>
    if activeCount pool + 1 ≤ 4 + pks.length then .error .err else
    if pks.any (fun pk => match poolFind pool pk with
        | none => true
        | some it => decide (it.status = .black)) then .error .err else
    match checkConsensusSigns H s "blackNode" (pks.flatMap strBytes) addr with
    | .error e => .error e
    | .ok (s1, false, ev) => .ok { st := s1, ret := "1", events := [ev] }
    | .ok (s1, true, ev) =>
      match blackLoop pks pool s1.black false with
      | none => .error .err
      | some (pool', bl, commit) =>
        let s2 := { s1 with pools := alPut s1.pools gv.view pool', black := bl }
        if commit then
          match executeCommitDpos s2 with
          | .error e => .error e
          | .ok s3 => .ok { st := s3, ret := "1", events := [ev, "blackNode"] }
        else .ok { st := s2, ret := "1", events := [ev, "blackNode"] }

/-- `WhiteNode`. -/
def whiteNode (s : State) (signers : List Addr) (pk : String) (addr : Addr) : M Out :=
  if !witness signers addr then .error .err else
  match decodePk pk with
  | none => .error .err
  | some kb =>
    if !alHas s.black kb then .error .err else
    match checkConsensusSigns H s "whiteNode" (strBytes pk) addr with
    | .error e => .error e
    | .ok (s1, false, ev) => .ok { st := s1, ret := "1", events := [ev] }
    | .ok (s1, true, ev) => .ok { st := { s1 with black := alErase s1.black kb }, ret := "1", events := [ev, "whiteNode"] }

/-- `QuitNode`. -/
def quitNode (s : State) (signers : List Addr) (pk : String) (addr : Addr) : M Out :=
  if !witness signers addr then .error .err else
  match curPool s with
  | none => .error .err
  | some (gv, pool) =>
    match poolFind pool pk with
    | none => .error .err
    | some it =>
      if !it.status.active then .error .err else
      if addr ≠ it.addr then .error .err else
      if activeCount pool ≤ 4 then .error .err else
      .ok { st := { s with pools := alPut s.pools gv.view (poolSetStatus pool pk .quit) }, ret := "1", events := ["quitNode"] }

/-- `GetCurConOperator` succeeds (the address itself is an oracle value of the op line). -/
def operatorOk (s : State) : Bool :=
  match curPool s with
  | none => false
  | some (_, pool) =>
    match consAddrs s pool with
    | none => false
    | some cons => decide (1 ≤ cons.length ∧ cons.length ≤ 16)

/-- `CommitDpos`. -/
def commitDpos (s : State) (signers : List Addr) (operator : Addr) : M Out :=
  match s.cfg, s.gv with
  | some cfg, some gv =>
    if !operatorOk s then .error .err else
    if !witness signers operator && !(decide (wrapSub32 s.height gv.height ≥ cfg.maxBlockChangeView)) then .error .err else
    match executeCommitDpos s with
    | .error e => .error e
    | .ok s1 => .ok { st := s1, ret := "1", events := ["commitDpos"] }
  | _, _ => .error .err

/-- `UpdateConfig`. -/
def updateConfig (s : State) (signers : List Addr) (operator : Addr) (c : Config) : M Out :=
  if !operatorOk s then .error .err else
  if !witness signers operator then .error .err else
  if c.blockMsgDelay < 5000 || c.hashMsgDelay < 5000 || c.peerHandshakeTimeout < 10 || c.maxBlockChangeView < 10000 then .error .err else
  .ok { st := { s with cfg := some c }, ret := "1", events := ["updateConfig"] }

/-! ## Side chain manager -/

def registerSideChain (s : State) (signers : List Addr) (r : SideChain) : M Out :=
  if r.btw = 0 then .error .err else
  if !witness signers r.addr then .error .err else
  if alHas s.scApply r.chainId then .error .err else
  if alHas s.sc r.chainId then .error .err else
  .ok { st := { s with scApply := alPut s.scApply r.chainId r }, ret := "1", events := ["RegisterSideChain"] }

def approveRegisterSideChain (s : State) (signers : List Addr) (id : Nat) (addr : Addr) : M Out :=
  if !witness signers addr then .error .err else
  match alGet s.scApply id with
  | none => .error .err
  | some req =>
    match checkConsensusSigns H s "approveRegisterSideChain" (u64le id) addr with
    | .error e => .error e
    | .ok (s1, false, ev) => .ok { st := s1, ret := "1", events := [ev] }
    | .ok (s1, true, ev) =>
      .ok { st := { s1 with sc := alPut s1.sc req.chainId req, scApply := alErase s1.scApply id },
            ret := "1", events := [ev, "ApproveRegisterSideChain"] }

def updateSideChain (s : State) (signers : List Addr) (r : SideChain) : M Out :=
  if r.btw = 0 then .error .err else
  if !witness signers r.addr then .error .err else
  match alGet s.sc r.chainId with
  | none => .error .err
  | some cur =>
    if cur.addr ≠ r.addr then .error .err else
    let s1 := { s with scUpd := alPut s.scUpd r.chainId r }
    .ok { st := clearSigns H s1 "approveUpdateSideChain" (u64le r.chainId), ret := "1", events := ["UpdateSideChain"] }

def approveUpdateSideChain (s : State) (signers : List Addr) (id : Nat) (addr : Addr) : M Out :=
  if !witness signers addr then .error .err else
  match alGet s.scUpd id with
  | none => .error .err
  | some req =>
    match checkConsensusSigns H s "approveUpdateSideChain" (u64le id) addr with
    | .error e => .error e
    | .ok (s1, false, ev) => .ok { st := s1, ret := "1", events := [ev] }
    | .ok (s1, true, ev) =>
      .ok { st := { s1 with sc := alPut s1.sc req.chainId req, scUpd := alErase s1.scUpd id },
            ret := "1", events := [ev, "ApproveUpdateSideChain"] }

def quitSideChain (s : State) (signers : List Addr) (id : Nat) (addr : Addr) : M Out :=
  if !witness signers addr then .error .err else
  match alGet s.sc id with
  | none => .error .err
  | some cur =>
    if cur.addr ≠ addr then .error .err else
    .ok { st := { s with scQuit := if s.scQuit.contains id then s.scQuit else s.scQuit ++ [id] }, ret := "1", events := ["QuitSideChain"] }

def approveQuitSideChain (s : State) (signers : List Addr) (id : Nat) (addr : Addr) : M Out :=
  if !witness signers addr then .error .err else
  if !s.scQuit.contains id then .error .err else
  match checkConsensusSigns H s "quitSideChain" (u64le id) addr with
  | .error e => .error e
  | .ok (s1, false, ev) => .ok { st := s1, ret := "1", events := [ev] }
  | .ok (s1, true, ev) =>
    .ok { st := { s1 with scQuit := s1.scQuit.filter (fun x => decide (x ≠ id)), scUpd := alErase s1.scUpd id, sc := alErase s1.sc id },
          ret := "1", events := [ev, "ApproveQuitSideChain"] }

/-! ## Relayer manager -/

def registerRelayer (s : State) (signers : List Addr) (addr : Addr) (l : List Addr) : M Out :=
  if !witness signers addr then .error .err else
  let id := s.rlApplyId.getD 0
  .ok { st := { s with rlApplyId := some (id + 1), rlApply := alPut s.rlApply id (l, addr) }, ret := "1", events := ["putRelayerApply"] }

def approveRegisterRelayer (s : State) (signers : List Addr) (id : Nat) (addr : Addr) : M Out :=
  if !witness signers addr then .error .err else
  match alGet s.rlApply id with
  | none => .error .err
  | some (l, _) =>
    match checkConsensusSigns H s "approveRegisterRelayer" (u64le id) addr with
    | .error e => .error e
    | .ok (s1, false, ev) => .ok { st := s1, ret := "1", events := [ev] }
    | .ok (s1, true, ev) =>
      .ok { st := { s1 with relayers := l.foldl addOnce s1.relayers, rlApply := alErase s1.rlApply id },
            ret := "1", events := [ev, "ApproveRegisterRelayer"] }

def removeRelayer (s : State) (signers : List Addr) (addr : Addr) (l : List Addr) : M Out :=
  if !witness signers addr then .error .err else
  let id := s.rlRemoveId.getD 0
  .ok { st := { s with rlRemoveId := some (id + 1), rlRemove := alPut s.rlRemove id (l, addr) }, ret := "1", events := ["putRelayerRemove"] }

def approveRemoveRelayer (s : State) (signers : List Addr) (id : Nat) (addr : Addr) : M Out :=
  if !witness signers addr then .error .err else
  match alGet s.rlRemove id with
  | none => .error .err
  | some (l, _) =>
    match checkConsensusSigns H s "approveRemoveRelayer" (u64le id) addr with
    | .error e => .error e
    | .ok (s1, false, ev) => .ok { st := s1, ret := "1", events := [ev] }
    | .ok (s1, true, ev) =>
      .ok { st := { s1 with relayers := s1.relayers.filter (fun a => !l.contains a), rlRemove := alErase s1.rlRemove id },
            ret := "1", events := [ev, "ApproveRemoveRelayer"] }

/-! ## Neo3 state manager -/

def registerStateValidator (s : State) (signers : List Addr) (addr : Addr) (l : List String) : M Out :=
  if !witness signers addr then .error .err else
  let id := s.svApplyId.getD 0
  .ok { st := { s with svApplyId := some (id + 1), svApply := alPut s.svApply id (l, addr) }, ret := "1", events := ["putStateValidatorApply"] }

def approveRegisterStateValidator (s : State) (signers : List Addr) (id : Nat) (addr : Addr) : M Out :=
  if !witness signers addr then .error .err else
  match checkConsensusSigns H s "approveRegisterStateValidator" (u64le id) addr with
  | .error e => .error e
  | .ok (s1, false, ev) => .ok { st := s1, ret := "0", events := [ev] }
  | .ok (s1, true, ev) =>
    match alGet s.svApply id with
    | none => .error .panic     -- nil request record dereferenced
    | some (l, _) =>
      let old := s1.svs.getD []
      .ok { st := { s1 with svs := some (old ++ l.filter (fun x => !old.contains x)), svApply := alErase s1.svApply id },
            ret := "1", events := [ev, "ApproveRegisterStateValidator"] }

def removeStateValidator (s : State) (signers : List Addr) (addr : Addr) (l : List String) : M Out :=
  if !witness signers addr then .error .err else
  let id := s.svRemoveId.getD 0
  .ok { st := { s with svRemoveId := some (id + 1), svRemove := alPut s.svRemove id (l, addr) }, ret := "1", events := ["putStateValidatorRemove"] }

def approveRemoveStateValidator (s : State) (signers : List Addr) (id : Nat) (addr : Addr) : M Out :=
  if !witness signers addr then .error .err else
  match checkConsensusSigns H s "approveRemoveStateValidator" (u64le id) addr with
  | .error e => .error e
  | .ok (s1, false, ev) => .ok { st := s1, ret := "0", events := [ev] }
  | .ok (s1, true, ev) =>
    match alGet s.svRemove id with
    | none => .error .panic
    | some (l, _) =>
      let rest := l.foldl (fun acc x => acc.erase x) (s1.svs.getD [])
      .ok { st := { s1 with svs := if rest.isEmpty then none else some rest, svRemove := alErase s1.svRemove id },
            ret := "1", events := [ev, "ApproveRemoveStateValidator"] }
end

/-! ## Vote ledgers -/

/-- `consensus_vote.CheckVotes`. -/
def checkVotes (s : State) (id : Bytes) (addr : Addr) : M Out :=
  let info := (alGet s.votes id).getD (false, [])
  if info.1 then .ok { st := s, ret := "0", events := [] } else
  match curPool s with
  | none => .error .err
  | some (_, pool) =>
    match consAddrs s pool with
    | none => .error .err
    | some cons =>
      if !cons.contains addr then .error .err else
      let fresh := !info.2.contains addr
      let voters := if fresh then info.2 ++ [addr] else info.2
      let num := countIn cons info.2 + (if fresh then 1 else 0)
      let s1 := if fresh then { s with votes := alPut s.votes id (false, voters) } else s
      if vote_CheckVotes0 (num : Nat) (cons.length : Nat) then
        .ok { st := { s1 with votes := alPut s1.votes id (true, voters) }, ret := "1", events := [] }
      else .ok { st := s1, ret := "0", events := [] }

def sigHas (l : List (Addr × Bytes)) (a : Addr) : Bool := l.any (fun p => p.1 == a)

section
variable (H : Bytes → Bytes)

/-- `signature_manager.AddSignature` with `CheckSigns`. -/
def addSignature (s : State) (signers : List Addr) (addr : Addr) (subject sig : Bytes) : M Out :=
  if !witness signers addr then .error .err else
  let id := H subject
  let info := (alGet s.sigs id).getD (false, [])
  match curPool s with
  | none => .error .err
  | some (_, pool) =>
    match consAddrs s pool with
    | none => .error .err
    | some cons =>
      if !cons.contains addr then .error .err else
      let fresh := !sigHas info.2 addr
      let entries := if fresh then info.2 ++ [(addr, sig)] else info.2
      let num := countIn cons (info.2.map (·.1)) + (if fresh then 1 else 0)
      let s1 := if fresh && sigmgr_CheckSigns0 (num : Nat) (cons.length : Nat) then { s with sigs := alPut s.sigs id (info.1, entries) } else s
      if sigmgr_CheckSigns1 (num : Nat) (cons.length : Nat) then
        .ok { st := { s1 with sigs := alPut s1.sigs id (true, entries) }, ret := "1", events := if info.1 then [] else ["AddSignatureQuorum"] }
      else .ok { st := s1, ret := "1", events := [] }

/-! ## Transactions -/

inductive Op
  | key (pk : Bytes) (addr : Addr)
  | height (h : Nat)
  | init (mbcv : Nat) (peers : List (Nat × String × Addr))
  | reg (signers : List Addr) (pk : String) (addr : Addr)
  | unreg (signers : List Addr) (pk : String) (addr : Addr)
  | appr (signers : List Addr) (pk : String) (addr : Addr)
  | white (signers : List Addr) (pk : String) (addr : Addr)
  | quit (signers : List Addr) (pk : String) (addr : Addr)
  | black (signers : List Addr) (addr : Addr) (pks : List String)
  | commit (signers : List Addr) (operator : Addr)
  | updcfg (signers : List Addr) (operator : Addr) (c : Config)
  | screg (signers : List Addr) (r : SideChain)
  | scupd (signers : List Addr) (r : SideChain)
  | scappr (signers : List Addr) (id : Nat) (addr : Addr)
  | scapprupd (signers : List Addr) (id : Nat) (addr : Addr)
  | scquit (signers : List Addr) (id : Nat) (addr : Addr)
  | scapprquit (signers : List Addr) (id : Nat) (addr : Addr)
  | rlreg (signers : List Addr) (addr : Addr) (l : List Addr)
  | rlrm (signers : List Addr) (addr : Addr) (l : List Addr)
  | rlappr (signers : List Addr) (id : Nat) (addr : Addr)
  | rlapprrm (signers : List Addr) (id : Nat) (addr : Addr)
  | svreg (signers : List Addr) (addr : Addr) (l : List String)
  | svrm (signers : List Addr) (addr : Addr) (l : List String)
  | svappr (signers : List Addr) (id : Nat) (addr : Addr)
  | svapprrm (signers : List Addr) (id : Nat) (addr : Addr)
  | vote (id : Bytes) (addr : Addr)
  | sig (signers : List Addr) (addr : Addr) (subject sig : Bytes)

/-- One transaction: the handler's verdict. -/
def exec (s : State) : Op → M Out
  | .key pk a => .ok { st := { s with keys := alPut s.keys pk a }, ret := "", events := [] }
  | .height h => .ok { st := { s with height := h }, ret := "", events := [] }
  | .init mbcv peers => initConfig s mbcv peers
  | .reg sg pk a => registerCandidate s sg pk a
  | .unreg sg pk a => unRegisterCandidate H s sg pk a
  | .appr sg pk a => approveCandidate H s sg pk a
  | .white sg pk a => whiteNode H s sg pk a
  | .quit sg pk a => quitNode s sg pk a
  | .black sg a pks => blackNode H s sg a pks
  | .commit sg o => commitDpos s sg o
  | .updcfg sg o c => updateConfig s sg o c
  | .screg sg r => registerSideChain s sg r
  | .scupd sg r => updateSideChain H s sg r
  | .scappr sg id a => approveRegisterSideChain H s sg id a
  | .scapprupd sg id a => approveUpdateSideChain H s sg id a
  | .scquit sg id a => quitSideChain s sg id a
  | .scapprquit sg id a => approveQuitSideChain H s sg id a
  | .rlreg sg a l => registerRelayer s sg a l
  | .rlrm sg a l => removeRelayer s sg a l
  | .rlappr sg id a => approveRegisterRelayer H s sg id a
  | .rlapprrm sg id a => approveRemoveRelayer H s sg id a
  | .svreg sg a l => registerStateValidator s sg a l
  | .svrm sg a l => removeStateValidator s sg a l
  | .svappr sg id a => approveRegisterStateValidator H s sg id a
  | .svapprrm sg id a => approveRemoveStateValidator H s sg id a
  | .vote id a => checkVotes s id a
  | .sig sg a subject sg' => addSignature H s sg a subject sg'

/-- State after the transaction: unchanged when the handler fails (nothing is committed). -/
def step (s : State) (op : Op) : State :=
  match exec H s op with
  | .ok o => o.st
  | .error _ => s

def run (s : State) : List Op → State
  | [] => s
  | op :: rest => run (step H s op) rest
end

end Poly.Model.Gov
