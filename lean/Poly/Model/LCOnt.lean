import Poly.Generated.Thresholds
/-!
# Ontology light client: decision logic of header sync and cross-chain message sync

Model of `native/service/header_sync/ont/{header_sync,utils,states}.go` and of the verification prefix of
`native/service/cross_chain_manager/ont/ont_handler.go`.

* keys `κ` stand for `vconfig.PubkeyID(pubkey)` (hex of the serialized public key); two submitted keys are the
  same key iff their ids are equal;
* signatures `σ` are opaque; `des s` = "`signature.Deserialize` succeeds", `ver k s` = "`signature.Verify` of key `k`
  accepts `s` over the hash of the object at hand" (both are parameters: external cryptography);
* the threshold tests are the definitions regenerated from the Go source (`Poly.Generated.Thresholds`).
-/
namespace Poly.Model.LCOnt
open Poly.Generated.Thresholds

/-! ## `signature.VerifyMultiSignature(data, keys, m, sigs)` (ontology core/signature) -/

/-- Inner loop: the first position `j` with `mask[j] = false` whose key verifies `s`; returns the updated mask. -/
def findSlot {κ σ : Type} (ver : κ → σ → Bool) (s : σ) : List κ → List Bool → Option (List Bool)
  | k :: ks, b :: bs =>
    if !b && ver k s then some (true :: bs) else (findSlot ver s ks bs).map (b :: ·)
  | _, _ => none

/-- Outer loop over the first `m` signatures. -/
def multiLoop {κ σ : Type} (des : σ → Bool) (ver : κ → σ → Bool) (keys : List κ) : List σ → List Bool → Bool
  | [], _ => true
  | s :: rest, mask =>
    des s && (match findSlot ver s keys mask with
      | none => false
      | some mask' => multiLoop des ver keys rest mask')

def verifyMulti {κ σ : Type} (des : σ → Bool) (ver : κ → σ → Bool) (keys : List κ) (m : Nat) (sigs : List σ) : Bool :=
  decide (m ≤ sigs.length) && multiLoop des ver keys (sigs.take m) (List.replicate keys.length false)

/-! ## Stored state of one ONT side chain -/

structure St (κ : Type) where
  /-- `KeyHeights.HeightList` as stored (its `Serialization` sorts it, big to small) -/
  keyHeights : List Nat
  /-- consensus peers per key height; a later `Put` for the same height shadows the earlier one -/
  peers : List (Nat × List κ)
  /-- heights with a `HEADER_INDEX` entry -/
  hdrs : List Nat
  /-- heights with a stored cross-chain message -/
  msgs : List Nat

def St.empty {κ : Type} : St κ := ⟨[], [], [], []⟩

/-- `FindKeyHeight`: the first entry of the stored list that is strictly below `h`. -/
def findKeyHeight (khs : List Nat) (h : Nat) : Option Nat := khs.find? (fun v => decide (h > v))

def peersAt {κ : Type} (ps : List (Nat × List κ)) (kh : Nat) : Option (List κ) :=
  (ps.find? (fun e => e.1 == kh)).map (·.2)

/-- append + stable sort (big to small) of an already sorted list -/
def insertDesc (h : Nat) (l : List Nat) : List Nat :=
  l.takeWhile (fun v => decide (v ≥ h)) ++ h :: l.dropWhile (fun v => decide (v ≥ h))

inductive Rej where
  | nokeyheight | nopeers | few | badkey | sig | payload | initialized
  deriving DecidableEq, Repr

/-- The membership / `usedPubKey` loop. -/
def checkSigners {κ : Type} [BEq κ] (tracked : List κ) : List κ → List κ → Bool
  | [], _ => true
  | b :: bs, used => tracked.contains b && !used.contains b && checkSigners tracked bs (b :: used)

/-- `verifyHeader` / `VerifyCrossChainMsg` (they differ only in the generated threshold site `thr`). -/
def verifySigned {κ σ : Type} [BEq κ] (thr : Int → Int → Bool) (des : σ → Bool) (ver : κ → σ → Bool)
    (st : St κ) (h : Nat) (bks : List κ) (sigs : List σ) : Except Rej Unit :=
  match findKeyHeight st.keyHeights h with
  | none => .error .nokeyheight
  | some kh =>
    match peersAt st.peers kh with
    | none => .error .nopeers
    | some tracked =>
      if thr bks.length tracked.length then .error .few
      else if !checkSigners tracked bks [] then .error .badkey
      else if !verifyMulti des ver bks bks.length sigs then .error .sig
      else .ok ()

def verifyHeader {κ σ : Type} [BEq κ] := @verifySigned κ σ _ ont_verifyHeader0
def verifyMsg {κ σ : Type} [BEq κ] := @verifySigned κ σ _ ont_verifyCrossChainMsg0

/-- Consensus payload of a header as far as `UpdateConsensusPeer` looks at it. -/
inductive Cfg (κ : Type) where
  | none                     -- `new_chain_config` is null
  | bad                      -- payload is not JSON
  | peers (ps : List κ)      -- ids of `NewChainConfig.Peers`

/-- key set of a Go map built from a list of ids: repeated ids collapse (order is irrelevant) -/
def dedupKeys {κ : Type} [BEq κ] : List κ → List κ
  | [] => []
  | k :: ks => if ks.contains k then dedupKeys ks else k :: dedupKeys ks

inductive Out where
  | ok | skip | verified | storedVerified | reject (r : Rej)
  deriving DecidableEq, Repr

/-- `UpdateConsensusPeer` + `putConsensusPeers` (PeerMap is keyed by id: repeated ids collapse). -/
def updatePeers {κ : Type} [BEq κ] (st : St κ) (h : Nat) : Cfg κ → St κ × Out
  | .none => (st, .ok)
  | .bad => (st, .reject .payload)
  | .peers ps => ({ st with peers := (h, dedupKeys ps) :: st.peers, keyHeights := insertDesc h st.keyHeights }, .ok)

/-- `SyncGenesisHeader` after the operator-witness gate (C18): refused once any header is stored (the
`CURRENT_HEADER_HEIGHT` record exists exactly then), otherwise `PutBlockHeader` + `UpdateConsensusPeer`. -/
def genesis {κ : Type} [BEq κ] (st : St κ) (h : Nat) (cfg : Cfg κ) : St κ × Out :=
  if st.hdrs.isEmpty then updatePeers { st with hdrs := h :: st.hdrs } h cfg
  else (st, .reject .initialized)

/-- one iteration of the loop in `ONTHandler.SyncBlockHeader` -/
def syncHeader {κ σ : Type} [BEq κ] (des : σ → Bool) (ver : κ → σ → Bool) (st : St κ) (h : Nat) (cfg : Cfg κ)
    (bks : List κ) (sigs : List σ) : St κ × Out :=
  if st.hdrs.contains h then (st, .skip)
  else match verifyHeader des ver st h bks sigs with
    | .error e => (st, .reject e)
    | .ok _ => updatePeers { st with hdrs := h :: st.hdrs } h cfg

/-- one iteration of the loop in header_sync `ONTHandler.SyncCrossChainMsg` -/
def syncMsg {κ σ : Type} [BEq κ] (des : σ → Bool) (ver : κ → σ → Bool) (st : St κ) (h : Nat)
    (bks : List κ) (sigs : List σ) : St κ × Out :=
  if st.msgs.contains h then (st, .skip)
  else match verifyMsg des ver st h bks sigs with
    | .error e => (st, .reject e)
    | .ok _ => ({ st with msgs := h :: st.msgs }, .ok)

/-- message part of cross_chain_manager `ONTHandler.MakeDepositProposal` (a stored message is reused unverified) -/
def depositMsg {κ σ : Type} [BEq κ] (des : σ → Bool) (ver : κ → σ → Bool) (st : St κ) (h : Nat)
    (bks : List κ) (sigs : List σ) : St κ × Out :=
  if st.msgs.contains h then (st, .storedVerified)
  else match verifyMsg des ver st h bks sigs with
    | .error e => (st, .reject e)
    | .ok _ => ({ st with msgs := h :: st.msgs }, .verified)

/-! ## Operations and runs (for the history theorems) -/

inductive Op (κ σ : Type) where
  | genesis (h : Nat) (cfg : Cfg κ)
  | hdr (h : Nat) (cfg : Cfg κ) (bks : List κ) (sigs : List σ) (ver : κ → σ → Bool)
  | msg (h : Nat) (bks : List κ) (sigs : List σ) (ver : κ → σ → Bool)
  | dep (h : Nat) (bks : List κ) (sigs : List σ) (ver : κ → σ → Bool)

/-- Every op carries the verification relation of its own message hash (`ver`). -/
def apply {κ σ : Type} [BEq κ] (des : σ → Bool) (st : St κ) : Op κ σ → St κ × Out
  | .genesis h cfg => genesis st h cfg
  | .hdr h cfg bks sigs ver => syncHeader des ver st h cfg bks sigs
  | .msg h bks sigs ver => syncMsg des ver st h bks sigs
  | .dep h bks sigs ver => depositMsg des ver st h bks sigs

def run {κ σ : Type} [BEq κ] (des : σ → Bool) (st : St κ) : List (Op κ σ) → St κ
  | [] => st
  | o :: os => run des (apply des st o).1 os

end Poly.Model.LCOnt
