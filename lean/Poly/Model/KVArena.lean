import Poly.Model.KV
/-
Second, concrete model of `overlaydb.MemDB`: the two arenas of the skip list restricted to level 0.
`kv` is `kvData` (append-only bytes), `nd` is `nodeData` (Go `[]int`): a node at offset `p` occupies
`nd[p] = kv offset`, `nd[p+1] = key length`, `nd[p+2] = value length`, `nd[p+3] = height h`,
`nd[p+4 .. p+4+h) = next pointers` (level 0 first); the head node sits at offset 0 with height 12.
Node heights come from an arbitrary oracle (an argument of `put`; in the code: `randHeight`).  Only the level-0
pointer of each tower is modelled: the upper cells are allocated (they determine the offsets of later nodes) but
left 0, and the search walks level 0 — the towers are shortcuts for that walk.
An index outside `nd` would be a Go panic; `cell` reads 0 there and the invariant shows it never happens.
-/
namespace Poly.Model.KV

structure Arena where
  kv : List UInt8 := []
  nd : List Nat := [0, 0, 0, 12] ++ List.replicate 12 0
  n : Nat := 0
  kvSize : Int := 0
  deriving Repr

def Arena.cell (a : Arena) (i : Nat) : Nat := a.nd.getD i 0

/-- `kvData[o : o+klen]` of node `p`. -/
def Arena.keyAt (a : Arena) (p : Nat) : Key := (a.kv.drop (a.cell p)).take (a.cell (p + 1))

/-- `kvData[o+klen : o+klen+vlen]`. -/
def Arena.valAt (a : Arena) (p : Nat) : Val := (a.kv.drop (a.cell p + a.cell (p + 1))).take (a.cell (p + 2))

/-- `nodeData[p+nNext]`: the level-0 successor (0 = end of list). -/
def Arena.next0 (a : Arena) (p : Nat) : Nat := a.cell (p + 4)

/-- `findGE(key, prev = true)` on level 0: `(prevNode[0], node, exact)`; fuel bounds the walk. -/
def Arena.search (a : Arena) (key : Key) : Nat → Nat → Nat × Nat × Bool
  | 0, prev => (prev, 0, false)
  | f + 1, prev =>
    let next := a.next0 prev
    if next = 0 then (prev, 0, false)
    else
      match cmpB (a.keyAt next) key with
      | .lt => Arena.search a key f next
      | .eq => (prev, next, true)
      | .gt => (prev, next, false)

/-- `MemDB.Put(key, value)` with the height `h` the oracle gives a new node. -/
def Arena.put (a : Arena) (key : Key) (value : Val) (h : Nat) : Arena :=
  let r := a.search key a.nd.length 0
  if r.2.2 then
    let node := r.2.1
    -- exact: a non-empty value re-appends key and value and repoints the node; then the value length is replaced
    let a1 : Arena := if value.isEmpty then a else { a with kv := a.kv ++ key ++ value, nd := a.nd.set node a.kv.length }
    { a1 with nd := a1.nd.set (node + 2) value.length,
              kvSize := a.kvSize + (value.length : Int) - (a.cell (node + 2) : Int) }
  else
    let prev := r.1
    let node := a.nd.length
    let nd1 := a.nd ++ [a.kv.length, key.length, value.length, h] ++ [a.next0 prev] ++ List.replicate (h - 1) 0
    { kv := a.kv ++ key ++ value, nd := nd1.set (prev + 4) node, n := a.n + 1,
      kvSize := a.kvSize + ((key.length + value.length : Nat) : Int) }

/-- `MemDB.Get`. -/
def Arena.get (a : Arena) (key : Key) : Look :=
  let r := a.search key a.nd.length 0
  if r.2.2 then (if a.cell (r.2.1 + 2) = 0 then .knownAbsent else .known (a.valAt r.2.1)) else .unknown

/-- The level-0 chain of node offsets, following the next pointers from `p`. -/
def Arena.chain (a : Arena) : Nat → Nat → List Nat
  | 0, _ => []
  | f + 1, p => let nx := a.next0 p; if nx = 0 then [] else nx :: Arena.chain a f nx

def Arena.read (a : Arena) (p : Nat) : Key × Val := (a.keyAt p, a.valAt p)

/-- `ForEach`: the entries along level 0. -/
def Arena.entries (a : Arena) : Entries := (a.chain a.nd.length 0).map a.read

/-- The abstraction to the node-list model. -/
def Arena.toMemDB (a : Arena) : MemDB := { ents := a.entries, n := a.n, kvSize := a.kvSize }

end Poly.Model.KV
