import Poly.Model.SchemaRecords
import Poly.Model.SchemaIO
/-! Driver step of family `records` (C04): executes the record schemas on the op lines of the harness. -/
namespace Poly.Model.SchemaDrv
open Poly.Model.Codec Poly.Model.Schema Poly.Model.SchemaRecords

def recErr : Err → String | .panic => "panic" | _ => "err"

/-- decoders whose Go signature takes the whole byte slice: the unread rest is not observable -/
def noRest (name : String) : Bool := name == "MakeTxParamWithSender"

def recDec (K : Bytes → Option Bytes) (rc : Rec) (b : Bytes) : String :=
  match rc.ty.dec K b with
  | .error e => recErr e
  | .ok (v, rest) => "ok " ++ rc.ty.show (rc.post v) ++ " rest=" ++ (if noRest rc.name then "-" else toString rest.length)

def recRt (K : Bytes → Option Bytes) (rc : Rec) (vtxt : String) (b : Bytes) : String :=
  match rc.ty.dec K b with
  | .error e => "FAIL:decode:" ++ recErr e
  | .ok (v, rest) =>
    let v' := rc.post v
    let fails : List String :=
      (if !rest.isEmpty then ["rest"] else []) ++
      (if rc.ty.show v' != vtxt then ["roundtrip"] else []) ++
      (if rc.ty.enc v' != b then ["reencode"] else []) ++
      (if (cutPoints b.length).any (fun k => match rc.ty.dec K (b.take k) with | .ok _ => true | .error _ => false)
        then ["truncation-accepted"] else [])
    if fails.isEmpty then "ok" else "FAIL:" ++ ",".intercalate fails

def stepRecords (toks : List String) : String :=
  let tbl := parseKeyTable (toks.getLastD "")
  match toks with
  | ["dec", name, b, _keys] =>
    match find name, ofHex b with
    | some rc, some b => recDec (lookupKey tbl) rc b
    | _, _ => "bad-op"
  | ["decm", name, b, _keys] =>      -- `dec` with the decoder's allocation measured by the harness
    match find name, ofHex b with
    | some rc, some b => recDec (lookupKey tbl) rc b
    | _, _ => "bad-op"
  | ["redec", name, _a, b, _keys] =>     -- decoding into a used receiver = decoding into a fresh one: the model has no receiver
    match find name, ofHex b with
    | some rc, some b => (match rc.ty.dec (lookupKey tbl) b with | .ok _ => "ok" | .error .panic => "panic" | .error _ => "err")
    | _, _ => "bad-op"
  | ["rawitem", "StorageItem", n, seed, _keys] =>
    match n.toNat?, seed.toNat? with
    | some n, some sd =>
      let v : Bytes := (List.range n).map fun i => UInt8.ofNat ((sd + i) % 251)
      let raw := storageItem.enc ((0 : UInt8), v)
      let back : Bool := match storageItem.dec (lookupKey tbl) raw with
        | .ok (x, []) => (let v' : Bytes := x.2; v' == v)
        | _ => false
      (if back then "ok" else "FAIL") ++ " rawlen=" ++ toString raw.length ++ " head=" ++ Hex.showHex (raw.take 6)
    | _, _ => "bad-op"
  | ["holdenc", name, b1, b2, b3, _keys] =>   -- held-encoding comparison: evaluated on the implementation (the model is pure)
    match find name, ofHex b1, ofHex b2, ofHex b3 with
    | some rc, some b1, some b2, some b3 =>
      if [b1, b2, b3].all (fun b => match rc.ty.dec (lookupKey tbl) b with | .ok _ => true | .error _ => false) then "ok" else "bad-op"
    | _, _, _, _ => "bad-op"
  | ["rt", name, vtxt, b, _keys] =>
    match find name, ofHex b with
    | some rc, some b => recRt (lookupKey tbl) rc vtxt b
    | _, _ => "bad-op"
  | _ => "bad-op"

end Poly.Model.SchemaDrv
