import Poly.Model.SchemaLedger
import Poly.Model.SchemaIO
import Poly.Util.Sha256
/-! Driver step of family `ledgerobj` (C02): executes the ledger-object model on the op lines of the harness. -/
namespace Poly.Model.SchemaDrv
open Poly.Model.Codec Poly.Model.Schema Poly.Model.SchemaLedger

def H : Bytes → Bytes := Sha256.sha256
def hex (b : Bytes) : String := Hex.showHex b

def showTxRes (t : TxRes) : String :=
  "ok " ++ txTy.show t.val ++ " hash=" ++ hex t.hash ++ " raw=" ++ toString t.raw.length

def isOk {α : Type} : Except Err α → Bool | .ok _ => true | .error _ => false

def errStr : Err → String | .panic => "panic" | _ => "err"

/-- the property of a valid transaction encoding `b` (see harness `txprop`) -/
def txProp (K : Bytes → Option Bytes) (b altsigs trailing : Bytes) : String :=
  match txFromRawBytes K H b with
  | .error e => "FAIL:decode:" ++ errStr e
  | .ok t =>
    let uenc := txUnsignedTy.enc t.val.1
    let fails : List String :=
      (if txTy.enc t.val != b then ["reencode"] else []) ++
      (if t.hash != H (H uenc) then ["hash-def"] else []) ++
      (if t.raw != b then ["raw"] else []) ++
      (match txFromRawBytes K H (uenc ++ altsigs) with
       | .ok t2 => if t2.hash != t.hash then ["hash-depends-on-sigs"] else []
       | .error _ => ["altsigs-rejected"]) ++
      (match txFromRawBytes K H (b ++ trailing) with
       | .ok t3 => if t3.raw != b || t3.hash != t.hash then ["trailing"] else []
       | .error _ => ["trailing"]) ++
      (if (cutPoints b.length).any (fun k => isOk (txFromRawBytes K H (b.take k))) then ["truncation-accepted"] else [])
    if fails.isEmpty then "ok hash=" ++ hex t.hash else "FAIL:" ++ ",".intercalate fails

def hdrProp (K : Bytes → Option Bytes) (b alttail : Bytes) : String :=
  match headerTy.dec K b with
  | .error e => "FAIL:decode:" ++ errStr e
  | .ok (h, rest) =>
    let uenc := headerUnsignedTy.enc h.1
    let hh := headerHash H h
    let fails : List String :=
      (if !rest.isEmpty then ["rest"] else []) ++
      (if headerTy.enc h != b then ["reencode"] else []) ++
      (match headerTy.dec K (uenc ++ alttail) with
       | .ok (h2, _) => if headerHash H h2 != hh then ["hash-depends-on-sigs"] else []
       | .error _ => ["alttail-rejected"]) ++
      (if (cutPoints b.length).any (fun k => isOk (headerTy.dec K (b.take k))) then ["truncation-accepted"] else [])
    if fails.isEmpty then "ok hash=" ++ hex hh else "FAIL:" ++ ",".intercalate fails

def showBlock (bv : BlockVal) (rest : Bytes) : String :=
  "ok " ++ headerTy.show bv.header ++ " hash=" ++ hex (headerHash H bv.header) ++
    " txs=[" ++ ";".intercalate (bv.txs.map fun t => hex t.hash) ++ "] rest=" ++ toString rest.length

/-- transaction with `code = fill × n`, no signatures (size boundary cases) -/
def bigTx (n : Nat) (fill : UInt8) (nonce : Nat) : Bytes :=
  txTy.enc (((0 : UInt8), (0xd1 : UInt8), UInt32.ofNat nonce, (0 : UInt64), (0 : UInt64), (0 : UInt64), List.replicate n fill,
    ([] : Bytes), List.replicate 20 (0 : UInt8), (0 : UInt8)), [])

def stepLedger (toks : List String) : String :=
  let tbl := parseKeyTable (toks.getLastD "")
  match toks with
  | ["tx", b, _keys] =>
    match ofHex b with
    | none => "bad-op"
    | some b =>
      match txFromRawBytes (lookupKey tbl) H b with
      | .ok t => showTxRes t
      | .error e => errStr e
  | ["txm", b, _keys] =>             -- `tx` with the decoder's allocation measured by the harness
    match ofHex b with
    | none => "bad-op"
    | some b =>
      match txFromRawBytes (lookupKey tbl) H b with
      | .ok t => showTxRes t
      | .error e => errStr e
  | ["txprop", b, alt, trailing, _keys] =>
    match ofHex b, ofHex alt, ofHex trailing with
    | some b, some alt, some tr => txProp (lookupKey tbl) b alt tr
    | _, _, _ => "bad-op"
  | ["txmut", b, _mode, _sig, _keys] =>   -- a change inside a Sig entry survives re-encoding: evaluated on the implementation
    match ofHex b with
    | none => "bad-op"
    | some b =>
      match txFromRawBytes (lookupKey tbl) H b with
      | .ok t => if t.val.2.isEmpty then "bad-op" else "ok"
      | .error _ => "bad-op"
  | "holdarr" :: _ => "ok"   -- held ToArray()/GetMessage() results re-checked after later encodings: evaluated on the implementation
  | "conc" :: _ => "ok"      -- concurrent decoding of the same items: evaluated on the implementation (the model is a pure function)
  | ["txbig", n, fill, nonce] =>
    match n.toNat?, ofHex fill, nonce.toNat? with
    | some n, some [f], some nonce =>
      let b := bigTx n f nonce
      "len=" ++ toString b.length ++ " " ++
        (match txFromRawBytes (fun _ => none) H b with | .ok t => "ok hash=" ++ hex t.hash | .error e => errStr e)
    | _, _, _ => "bad-op"
  | ["hdr", b, _keys] =>
    match ofHex b with
    | none => "bad-op"
    | some b =>
      match headerTy.dec (lookupKey tbl) b with
      | .ok (h, rest) => "ok " ++ headerTy.show h ++ " hash=" ++ hex (headerHash H h) ++ " rest=" ++ toString rest.length
      | .error e => errStr e
  | ["hdrprop", b, alt, _keys] =>
    match ofHex b, ofHex alt with
    | some b, some alt => hdrProp (lookupKey tbl) b alt
    | _, _ => "bad-op"
  | ["attr", b, _keys] =>
    match ofHex b with
    | none => "bad-op"
    | some b =>
      match txAttributeTy.dec (lookupKey tbl) b with
      | .ok (v, rest) => "ok " ++ txAttributeTy.show v ++ " rest=" ++ toString rest.length ++
          (if txAttributeTy.enc v == b.take (b.length - rest.length) then " canon" else " noncanon")
      | .error e => errStr e
  | ["blk", b, _keys] =>
    match ofHex b with
    | none => "bad-op"
    | some b =>
      match blockDec (lookupKey tbl) H b with
      | .ok (bv, rest) => showBlock bv rest
      | .error e => errStr e
  | ["blkbad", _, b, _keys] =>
    match ofHex b with
    | none => "bad-op"
    | some b =>
      match blockDec (lookupKey tbl) H b with
      | .ok (bv, rest) => showBlock bv rest
      | .error e => errStr e
  | _ => "bad-op"

end Poly.Model.SchemaDrv
