import Poly.Model.Gov
/-!
Specification vocabulary over the governance model: which request a transaction creates or approves, whether a
request is pending, whether a transaction applied its action.
-/
namespace Poly.Model.Gov

/-- A pending request: candidacy of a public key (by its decoded bytes), side-chain registration / update / quit (by
chain id), relayer registration / removal and state-validator registration / removal (by request number). -/
inductive Req
  | cand (kb : Bytes)
  | screg (id : Nat)
  | scupd (id : Nat)
  | scquit (id : Nat)
  | rlreg (id : Nat)
  | rlrm (id : Nat)
  | svreg (id : Nat)
  | svrm (id : Nat)
deriving DecidableEq, Repr

/-- The request record is stored. -/
def pending (s : State) : Req → Bool
  | .cand kb => alHas s.apply kb
  | .screg id => alHas s.scApply id
  | .scupd id => alHas s.scUpd id
  | .scquit id => s.scQuit.contains id
  | .rlreg id => alHas s.rlApply id
  | .rlrm id => alHas s.rlRemove id
  | .svreg id => alHas s.svApply id
  | .svrm id => alHas s.svRemove id

/-- The request that the transaction `op` would create in state `s` (request transactions only). -/
def creates (s : State) : Op → Option Req
  | .reg _ pk _ => (decodePk pk).map Req.cand
  | .screg _ r => some (.screg r.chainId)
  | .scupd _ r => some (.scupd r.chainId)
  | .scquit _ id _ => some (.scquit id)
  | .rlreg _ _ _ => some (.rlreg (s.rlApplyId.getD 0))
  | .rlrm _ _ _ => some (.rlrm (s.rlRemoveId.getD 0))
  | .svreg _ _ _ => some (.svreg (s.svApplyId.getD 0))
  | .svrm _ _ _ => some (.svrm (s.svRemoveId.getD 0))
  | _ => none

/-- The request that the approval transaction `op` refers to. -/
def approves : Op → Option Req
  | .appr _ pk _ => (decodePk pk).map Req.cand
  | .scappr _ id _ => some (.screg id)
  | .scapprupd _ id _ => some (.scupd id)
  | .scapprquit _ id _ => some (.scquit id)
  | .rlappr _ id _ => some (.rlreg id)
  | .rlapprrm _ id _ => some (.rlrm id)
  | .svappr _ id _ => some (.svreg id)
  | .svapprrm _ id _ => some (.svrm id)
  | _ => none

section
variable (H : Bytes → Bytes)

/-- The transaction reached the quorum and its action was applied (and committed). -/
def applied (s : State) (op : Op) : Bool :=
  match plan H s op with
  | .ok (.approve ap) =>
    match checkConsensusSigns H s ap.method ap.input ap.addr with
    | .ok (s1, true, _) => (ap.onFire s1).toBool
    | _ => false
  | _ => false
end

end Poly.Model.Gov

namespace Poly.Model.Gov
/-- Along the run of `ops` from `s`, no transaction creates the request `q`. -/
def NoFreshRequest (H : Bytes → Bytes) (s : State) : List Op → Req → Prop
  | [], _ => True
  | op :: rest, q => creates s op ≠ some q ∧ NoFreshRequest H (step H s op) rest q
end Poly.Model.Gov
