import Poly.Model.Gov
/-!
Specification vocabulary over the governance model: which request a transaction creates or approves, whether a
request is pending, whether a transaction applied its action.
-/
namespace Poly.Model.Gov

/-- A pending request: candidacy of a public key (by its decoded bytes), side-chain registration / update / quit (by
chain id), relayer registration / removal and state-validator registration / removal (by request number). -/
inductive Req
  | cand (kb : Bytes)
  | screg (id : Nat)
  | scupd (id : Nat)
  | scquit (id : Nat)
  | rlreg (id : Nat)
  | rlrm (id : Nat)
  | svreg (id : Nat)
  | svrm (id : Nat)
deriving DecidableEq, Repr

/-- The request record is stored. -/
def pending (s : State) : Req → Bool
  | .cand kb => alHas s.apply kb
  | .screg id => alHas s.scApply id
  | .scupd id => alHas s.scUpd id
  | .scquit id => s.scQuit.contains id
  | .rlreg id => alHas s.rlApply id
  | .rlrm id => alHas s.rlRemove id
  | .svreg id => alHas s.svApply id
  | .svrm id => alHas s.svRemove id

/-- The request that the transaction `op` would create in state `s` (request transactions only). -/
def creates (s : State) : Op → Option Req
  | .reg _ pk _ => (decodePk pk).map Req.cand
  | .screg _ r => some (.screg r.chainId)
  | .scupd _ r => some (.scupd r.chainId)
  | .scquit _ id _ => some (.scquit id)
  | .rlreg _ _ _ => some (.rlreg (s.rlApplyId.getD 0))
  | .rlrm _ _ _ => some (.rlrm (s.rlRemoveId.getD 0))
  | .svreg _ _ _ => some (.svreg (s.svApplyId.getD 0))
  | .svrm _ _ _ => some (.svrm (s.svRemoveId.getD 0))
  | _ => none

/-- The request that the approval transaction `op` refers to. -/
def approves : Op → Option Req
  | .appr _ pk _ => (decodePk pk).map Req.cand
  | .scappr _ id _ => some (.screg id)
  | .scapprupd _ id _ => some (.scupd id)
  | .scapprquit _ id _ => some (.scquit id)
  | .rlappr _ id _ => some (.rlreg id)
  | .rlapprrm _ id _ => some (.rlrm id)
  | .svappr _ id _ => some (.svreg id)
  | .svapprrm _ id _ => some (.svrm id)
  | _ => none

section
variable (H : Bytes → Bytes)

/-- The transaction reached the quorum and its action was applied (and committed). -/
def applied (s : State) (op : Op) : Bool :=
  match plan H s op with
  | .ok (.approve ap) =>
    match checkConsensusSigns H s ap.method ap.input ap.addr with
    | .ok (s1, true, _) => (ap.onFire s1).toBool
    | _ => false
  | _ => false
end

end Poly.Model.Gov

namespace Poly.Model.Gov
/-- Along the run of `ops` from `s`, no transaction creates the request `q`. -/
def NoFreshRequest (H : Bytes → Bytes) (s : State) : List Op → Req → Prop
  | [], _ => True
  | op :: rest, q => creates s op ≠ some q ∧ NoFreshRequest H (step H s op) rest q
end Poly.Model.Gov

namespace Poly.Model.Gov

/-- Two different messages with the same ledger key. -/
def LedgerCollision (H : Bytes → Bytes) : Prop := ∃ x y, x ≠ y ∧ H x = H y

/-- Number of consensus-set entries whose address is among the approvers. -/
def approvedBy (cons approvers : List Addr) : Nat := (cons.filter (fun c => approvers.contains c)).length

/-- The ledger as the code runs it on a sequence of approvals of one (method, request), each with the consensus set in
force at that moment: the stored signer list (emptied when the action is applied) and, per approval, whether the
action was applied. -/
def ledgerRun : List Addr → List (Addr × List Addr) → List Bool
  | _, [] => []
  | l, (a, cons) :: rest =>
    (ccsCore l cons a).2 :: ledgerRun (if (ccsCore l cons a).2 then [] else (ccsCore l cons a).1) rest

/-- The property's reading of the same sequence: everybody who approved since the action last took effect (repeats
kept, outsiders kept); the action is applied exactly when the consensus members among them reach ceil(2N/3). -/
def quorumSpec : List Addr → List (Addr × List Addr) → List Bool
  | _, [] => []
  | acc, (a, cons) :: rest =>
    decide ((2 * cons.length + 2) / 3 ≤ approvedBy cons (acc ++ [a])) ::
      quorumSpec (if (2 * cons.length + 2) / 3 ≤ approvedBy cons (acc ++ [a]) then [] else acc ++ [a]) rest

/-- The ledger key an approval or clearing transaction works on in state `s`. -/
def ledgerKeyOf (H : Bytes → Bytes) (s : State) (op : Op) : Option Bytes :=
  match plan H s op with
  | .ok (.approve ap) => some (ledgerKey H ap.method ap.input)
  | .ok (.done _) =>
    match op with
    | .unreg _ pk _ => match decodePk pk with
      | some kb => match alGet s.apply kb with
        | some (apk, _) => some (ledgerKey H "approveCandidate" (strBytes apk))
        | none => none
      | none => none
    | .scupd _ r => some (ledgerKey H "approveUpdateSideChain" (u64le r.chainId))
    | _ => none
  | _ => none

/-- The method names passed to `CheckConsensusSigns` by the ten approval handlers. -/
def approvalMethods : List String :=
  ["approveCandidate", "blackNode", "whiteNode", "approveRegisterSideChain", "approveUpdateSideChain", "quitSideChain",
   "approveRegisterRelayer", "approveRemoveRelayer", "approveRegisterStateValidator", "approveRemoveStateValidator"]

end Poly.Model.Gov

namespace Poly.Model.Gov

/-- The vote ledger as the code runs it over a sequence of votes (voter, consensus addresses then in force):
per vote `none` (rejected) or `some released`. -/
def voteRun : (Bool × List Addr) → List (Addr × List Addr) → List (Option Bool)
  | _, [] => []
  | info, (a, cons) :: rest =>
    match voteStep info cons a with
    | none => none :: voteRun info rest
    | some (info', r) => some r :: voteRun info' rest

/-- The property's reading: a vote of a non-member is rejected; accepted voters accumulate (repeats kept); the message
is released at the first vote at which the consensus members among the accepted voters reach ceil(2N/3), and never
again (`released` latches; later votes are ignored). -/
def voteSpec : Bool → List Addr → List (Addr × List Addr) → List (Option Bool)
  | _, _, [] => []
  | released, acc, (a, cons) :: rest =>
    if released then some false :: voteSpec true acc rest
    else if !cons.contains a then none :: voteSpec false acc rest
    else some (decide ((2 * cons.length + 2) / 3 ≤ approvedBy cons (acc ++ [a]))) ::
           voteSpec (decide ((2 * cons.length + 2) / 3 ≤ approvedBy cons (acc ++ [a]))) (acc ++ [a]) rest

/-- The signature ledger over a sequence of signatures (signer, signature, consensus addresses): `none` (rejected) or
`some emitted`. -/
def sigRun : (Bool × List (Addr × Bytes)) → List (Addr × Bytes × List Addr) → List (Option Bool)
  | _, [] => []
  | info, (a, sg, cons) :: rest =>
    match sigStep info cons a sg with
    | none => none :: sigRun info rest
    | some (info', r) => some r :: sigRun info' rest

/-- The property's reading: signers accumulate also after the quorum; the quorum event is emitted at the first
signature at which the consensus members among the signers reach ceil(2N/3), and never again. -/
def sigSpec : Bool → List Addr → List (Addr × Bytes × List Addr) → List (Option Bool)
  | _, _, [] => []
  | emitted, acc, (a, _, cons) :: rest =>
    if !cons.contains a then none :: sigSpec emitted acc rest
    else some (decide ((2 * cons.length + 2) / 3 ≤ approvedBy cons (acc ++ [a])) && !emitted) ::
           sigSpec (emitted || decide ((2 * cons.length + 2) / 3 ≤ approvedBy cons (acc ++ [a]))) (acc ++ [a]) rest

def countTrue : List (Option Bool) → Nat
  | [] => 0
  | some true :: rest => countTrue rest + 1
  | _ :: rest => countTrue rest

end Poly.Model.Gov

namespace Poly.Model.Gov

/-- Which helper stores the request that an approval method approves (Go function names). -/
def requestStoredBy : List (String × String) :=
  [("ApproveCandidate", "putPeerApply"), ("ApproveRegisterSideChain", "putSideChainApply"),
   ("ApproveUpdateSideChain", "putUpdateSideChain"), ("ApproveQuitSideChain", "putQuitSideChain"),
   ("ApproveRegisterRelayer", "putRelayerApply"), ("ApproveRemoveRelayer", "putRelayerRemove"),
   ("ApproveRegisterStateValidator", "putStateValidatorApply"), ("ApproveRemoveStateValidator", "putStateValidatorRemove")]

/-- prefixes listed for function `f` in a generated table -/
def prefixesOf (table : List (String × String × List String)) (f : String) : List String :=
  (table.filter (fun r => r.2.1 == f)).flatMap (fun r => r.2.2)

end Poly.Model.Gov

namespace Poly.Model.Gov

/-- What a transaction contributes to the approval history of ledger key `k` in state `s`: if it is a committed
approval on `k`, the approver with the consensus addresses in force, and whether the action was applied. -/
def approvalEvent (H : Bytes → Bytes) (k : Bytes) (s : State) (op : Op) : Option ((Addr × List Addr) × Bool) :=
  match plan H s op with
  | .ok (.approve ap) =>
    if ledgerKey H ap.method ap.input = k then
      match checkConsensusSigns H s ap.method ap.input ap.addr, curPool s with
      | .ok (s1, f, _), some (_, pool) =>
        match consAddrs s pool with
        | some cons => if f && !(ap.onFire s1).toBool then none else some ((ap.addr, cons), f)
        | none => none
      | _, _ => none
    else none
  | _ => none

/-- The committed approvals on ledger key `k` along a history, and whether each applied its action. -/
def approvalsOn (H : Bytes → Bytes) (k : Bytes) : State → List Op → List ((Addr × List Addr) × Bool)
  | _, [] => []
  | s, op :: rest =>
    match approvalEvent H k s op with
    | some e => e :: approvalsOn H k (step H s op) rest
    | none => approvalsOn H k (step H s op) rest

/-- Along the history no request whose approvals are collected under `k` is withdrawn or replaced. -/
def NoClearOn (H : Bytes → Bytes) (k : Bytes) : State → List Op → Prop
  | _, [] => True
  | s, op :: rest =>
    (∀ o, plan H s op = .ok (.done o) → ledgerKeyOf H s op ≠ some k) ∧ NoClearOn H k (step H s op) rest

end Poly.Model.Gov
