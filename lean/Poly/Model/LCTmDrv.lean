import Poly.Util.Proto
import Poly.Model.LCTm
/-! Line-protocol adapter of the Tendermint-family light-client model (C30) for `drv_lc`.
Families whose name starts with `tm`. The op vocabulary is documented in `harness/cmd/hlc/tmcommon.go`.

Ideal instantiation of the external cryptography: addresses and keys are pool indices (the harness orders its key
pool by address), a hash is the canonical text of what was hashed, a signature verifies under exactly the key that
made it, over exactly the chain id it was made for; a Merkle proof verifies exactly what it was built for. -/
namespace Poly.Model.LCTmDrv
open Poly Poly.Model.LCTm

inductive Rt where
  | cosmos | okex | heimdall
  deriving DecidableEq

abbrev V := Val Nat Nat

/-- proof descriptor (see tmdep.go): `e`xistence / `a`bsence proof of item `item` in store version `ver` -/
structure Pf where
  kind : Char
  item : Nat
  ver : Nat
  priv : Bool   -- from the private store p1
  ics : Bool    -- ICS-23 proof ops from the commitment state q1 (cosmos)

inductive Cm where
  | tm (c : Commit Nat String String)
  | h (c : HCommit Nat String String)

abbrev Hdr := Header Nat Nat String String Cm

structure DSt where
  hdrs : List (String × Option Hdr)
  st : St String String String
  sideChain : Bool

def DSt.init : DSt := ⟨[], St.empty, false⟩

/-! ### descriptors -/

def parseVal (s : String) : Option V :=
  let (body, addr?) := match s.splitOn "@" with
    | [b, a] => (b, a.toNat?.map some)
    | [b] => (b, some none)
    | _ => (s, none)
  match addr?, body.splitOn ":" with
  | some a?, [k, p] =>
    match k.toNat?, p.toInt? with
    | some k, some p =>
      let a := a?.getD k
      if k < 12 && a < 12 then some ⟨a, k, p⟩ else none
    | _, _ => none
  | _, _ => none

def parseVals (s : String) : Option (List V) :=
  if s == "-" then some [] else (s.splitOn ",").mapM parseVal

def le (a b : Nat) : Bool := a ≤ b

def showKP (v : V) : String := s!"{v.key}:{v.power}"

/-- id of the amino (legacy) hash of a set given in `Validators` order -/
def legacyId (vs : List V) : String :=
  if vs.isEmpty then "e" else "L" ++ ",".intercalate (vs.map showKP)

/-- id of the protobuf (tendermint 0.34) hash: order by power (descending), then address -/
def newId (vs : List V) : String :=
  "N" ++ ",".intercalate ((vs.mergeSort (fun a b => decide (a.power > b.power) || (a.power == b.power && a.key ≤ b.key))).map showKP)

def hashes : Hashes Nat Nat String := ⟨legacyId, newId⟩

/-- hash descriptor → id -/
def hashDesc (rt : Rt) (s : String) (own : List V) (ver : Nat) : Option String :=
  if s == "e" then some "e"
  else if s == "" then none
  else if s.startsWith "x" then some s
  else
    let kindSet : Option (Char × List V) :=
      if s == "=" then some (if rt == .cosmos && ver ≥ 11 then 'N' else 'L', own)
      else if s == "L=" then some ('L', own)
      else if s == "N=" then some ('N', own)
      else match s.toList with
        | c :: rest => if c == 'L' || c == 'N' then (parseVals (String.ofList rest)).map (fun vs => (c, vs)) else none
        | [] => none
    match kindSet with
    | none => none
    | some (kind, set) =>
      match newValidatorSet le set with
      | none => none
      | some sorted =>
        if kind == 'N' then
          if rt != .cosmos || !keysDistinct (set.map (·.key)) then none else some (newId sorted)
        else some (legacyId sorted)

def splitAt? (s : String) : String × Option String :=
  match s.splitOn "@" with
  | [a, b] => (a, some b)
  | _ => (s, none)

structure SlotD where
  kind : Char
  key : Nat
  vidx : Option Nat
  copyOf : Option Nat

def parseSlot (heimdall : Bool) (p : String) : Option SlotD :=
  match p.toList with
  | [] => none
  | kind :: restL =>
    let rest0 := String.ofList restL
    let (rest, at?) := splitAt? rest0
    let vidx? : Option (Option Nat) := match at? with
      | none => some none
      | some a => if heimdall then (a.toNat?.bind fun v => if v ≤ 64 then some (some v) else none) else none
    match vidx? with
    | none => none
    | some vidx =>
      let bare := if heimdall then "ab" else "abA"
      let kinds := if heimdall then "gnwthr" else "gnwEu"
      if bare.toList.contains kind then
        if rest != "" || (kind == 'a' && vidx.isSome) then none else some ⟨kind, 0, vidx, none⟩
      else if kinds.toList.contains kind then
        match rest.toNat? with
        | some v => if v < 12 then some ⟨kind, v, vidx, none⟩ else none
        | none => none
      else if heimdall && kind == '=' then
        match rest.toNat? with
        | some v => if v ≤ 64 && vidx.isNone then some ⟨kind, 0, none, some v⟩ else none
        | none => none
      else none

def parseSlots (heimdall : Bool) (s : String) : Option (List SlotD) :=
  if s == "-" then some [] else (s.splitOn ",").mapM (parseSlot heimdall)

/-- key that genuinely signed the vote of a slot (`none`: no valid signature under any key) -/
def signerOf (d : SlotD) : Option Nat :=
  if "gnthr".toList.contains d.kind then some d.key else none

def tmSlot (d : SlotD) : Slot :=
  match d.kind with
  | 'a' => ⟨.absent, true⟩
  | 'g' => ⟨.commit, true⟩
  | 'n' => ⟨.nil, true⟩
  | 'w' => ⟨.commit, true⟩
  | 'b' => ⟨.commit, true⟩
  | 'A' => ⟨.absent, false⟩
  | 'E' => ⟨.commit, false⟩
  | _ => ⟨.other, false⟩

def mkVer (signers : List (Option Nat)) (signChain : String) : String → Nat → Nat → Bool :=
  fun chain idx k => signChain == chain && (match signers[idx]? with | some (some i) => i == k | _ => false)

def resolveCopies (ds : List SlotD) : Option (List (SlotD × Nat)) :=
  -- every slot with the position its content was made for
  (ds.zipIdx).mapM fun (d, i) =>
    match d.copyOf with
    | none => some (d, i)
    | some j =>
      if j == i then none else
      match ds[j]? with
      | some dj => if dj.kind == '=' || dj.kind == 'a' then none else some (dj, j)
      | none => none

def hVote (cheight round : Int) (zero : Bool) (d : SlotD) (madeFor : Nat) : Option HVote :=
  if d.kind == 'a' then none
  else some {
    isPrecommit := d.kind != 't'
    height := if d.kind == 'h' then cheight + 1 else cheight
    round := if d.kind == 'r' then round + 1 else round
    blockEq := if d.kind == 'n' then zero else true
    index := ((d.vidx.getD madeFor : Nat) : Int) }

def parseHdr (rt : Rt) (tracked : Option String) (toks : List String) : Option (String × Hdr) :=
  match toks with
  | name :: ver :: chain :: height :: vh :: nvh :: app :: vals :: commit =>
    match ver.toNat?, height.toInt?, parseVals vals with
    | some ver, some height, some vals =>
      if ver ≥ 4294967296 then none else
      match hashDesc rt vh vals ver, hashDesc rt nvh vals ver with
      | some vhId, some nvhId =>
        if !(app == "e" || app.startsWith "x" || app == "r1" || app == "r2" || app == "p1" || (app == "q1" && rt == .cosmos)) then none else
        let hash := if vhId == "e" then "e" else s!"H({ver}/{chain}/{height}/{vhId}/{nvhId}/{app})"
        let mk (c : Option Cm) : Hdr := ⟨ver, chain, height, vhId, nvhId, app, hash, vals, c⟩
        match commit with
        | ["nil"] => some (name, mk none)
        | [cheight, round, bid, signChain, slots] =>
          match cheight.toInt?, round.toInt?, parseSlots (rt == .heimdall) slots with
          | some cheight, some round, some ds =>
            if round < -2147483648 || round > 2147483647 then none else
            let bh? : Option (String × Bool) :=
              if bid == "=" then some (hash, false) else if bid == "o" then some ("o", false)
              else if bid == "z" then some ("e", true)
              else if bid == "t" then tracked.map (fun bh => (bh, false)) else none
            match bh? with
            | none => none
            | some (bh, zero) =>
              if rt == .heimdall then
                match resolveCopies ds with
                | none => none
                | some rs =>
                  let votes := rs.map fun (d, j) => hVote cheight round zero d j
                  let signers := rs.map fun (d, _) => signerOf d
                  some (name, mk (some (.h ⟨bh, zero, votes, mkVer signers signChain⟩)))
              else
                if ds.any (fun d => d.copyOf.isSome) then none else
                some (name, mk (some (.tm ⟨cheight, round, bh, zero, ds.map tmSlot, mkVer (ds.map signerOf) signChain⟩)))
          | _, _, _ => none
        | _ => none
      | _, _ => none
    | _, _, _ => none
  | _ => none

/-! ### verification by router -/

def asTm (h : Hdr) : Header Nat Nat String String (Commit Nat String String) :=
  { h with commit := h.commit.bind fun c => match c with | .tm c => some c | .h _ => none }

def asH (h : Hdr) : Header Nat Nat String String (HCommit Nat String String) :=
  { h with commit := h.commit.bind fun c => match c with | .h c => some c | .tm _ => none }

def verify (rt : Rt) : Verifier Nat Nat String String Cm := fun h info =>
  match rt with
  | .cosmos => verifyTm .cosmos le hashes (asTm h) info
  | .okex => verifyTm .okex le hashes (asTm h) info
  | .heimdall => verifyH le hashes (asH h) info

def showErr : Err → String
  | .panic => "panic"
  | e => "reject:" ++ (match e with
    | .witness => "witness" | .dup => "dup" | .unmarshal => "unmarshal" | .noinfo => "noinfo" | .useless => "useless"
    | .valhash => "valhash" | .hdrvalhash => "hdrvalhash" | .commitheight => "commitheight" | .commithash => "commithash"
    | .basic => "basic" | .size => "size" | .index => "index" | .noval => "noval" | .votetype => "votetype" | .sig => "sig"
    | .power => "power" | .low => "low" | .nohdr => "nohdr" | .height => "height" | .pv => "pv" | .proof => "proof"
    | .nochain => "nochain" | .proofsize => "proofsize" | .keylen => "keylen" | .keyprefix => "keyprefix"
    | .module => "module" | .kp => "kp" | .verify => "verify" | .txparam => "txparam" | .done => "done" | .span => "span"
    | .panic => "panic")

def showTracked (st : St String String String) : String :=
  match st.info with
  | none => "-"
  | some i => s!"h={i.height} n={i.next} c={i.chain} b={i.blockHash}"

def outcome {ε : Type} (st : St String String String) (r : Except Err ε) (okText : ε → String) : String :=
  match r with
  | .error .panic => "panic"
  | .error e => showErr e ++ " " ++ showTracked st
  | .ok v => okText v ++ " " ++ showTracked st

def lookup (d : DSt) (n : String) : Option (Option Hdr) := (d.hdrs.find? (·.1 == n)).map (·.2)


/-! ### deposits (tmdep.go) -/

/-- items of a router: (first version that stores it, 0 = never; module store; key length; contract prefix ok) -/
def itemOf (rt : Rt) (j : Nat) : Option (Nat × String × Nat × Bool) :=
  let modStore := match rt with | .cosmos => "s" | .okex => "evm" | .heimdall => "bor"
  if j ≤ 1 || j == 3 then some (1, modStore, 53, true)
  else if j == 2 then some (2, modStore, 53, true)
  else if j == 4 then (if rt == .heimdall then some (1, modStore, 53, true) else none)
  else if j == 5 || j == 6 then some (0, modStore, 129, false)
  else if j == 7 then (if rt == .okex then some (1, modStore, 53, false) else if rt == .cosmos then some (0, "s", 53, true) else none)
  else if j == 8 then (if rt == .okex then some (1, modStore, 9, false) else if rt == .cosmos then some (0, "acc", 53, true) else none)
  else if j == 9 then some (1, "acc", 53, true)
  else none

/-- items 5 and 6 are also stored in the private store p1 -/
def inPrivate (j : Nat) : Bool := j == 5 || j == 6

/-- cosmos items committed in the ICS-23 state q1 -/
def inIcs (j : Nat) : Bool := j == 0 || j == 1 || j == 3 || j == 7 || j == 8 || j == 9

structure DepIn where
  proof : Option Pf
  kp : String
  value : Option String

def parseItemTok (pre : Char) (t : String) : Option Nat :=
  match t.toList with
  | c :: rest => if c == pre && !rest.isEmpty then (String.ofList rest).toNat?.bind (fun j => if j ≤ 9 then some j else none) else none
  | [] => none

def parsePf (rt : Rt) (s : String) : Option DepIn :=
  match s.splitOn "/" with
  | [src, kp, val] =>
    let proof? : Option (Option Pf) :=
      if src == "x" then some none
      else match src.toList with
        | c :: rest =>
          if c != 'e' && c != 'a' then none else
          let body := String.ofList rest
          let priv := (body.splitOn "p").length == 2 && (body.splitOn "r").length == 1
          let ics := (body.splitOn "q").length == 2 && (body.splitOn "r").length == 1 && !priv
          match (if priv then body.splitOn "p" else if ics then body.splitOn "q" else body.splitOn "r") with
          | [j, k] =>
            if src.length < 4 then none else
            match j.toNat?, k.toNat? with
            | some j, some k =>
              if k < 1 || k > 2 || j > 9 || (priv && (k != 1 || c != 'e')) || (ics && (k != 1 || rt != .cosmos)) then none else
              match itemOf rt j with
              | none => none
              | some (since, _, _, _) =>
                let present := if priv then inPrivate j else if ics then inIcs j else since != 0 && since ≤ k
                if (c == 'e') != present then none else some (some ⟨c, j, k, priv, ics⟩)
            | _, _ => none
          | _ => none
        | [] => none
    match proof? with
    | none => none
    | some proof =>
      let kp? : Option String :=
        if kp == "=" then proof.map (fun p => if p.priv then s!"pk{p.item}" else s!"k{p.item}")
        else if kp == "-" then some ""
        else (parseItemTok 'k' kp).bind (fun j => (itemOf rt j).map (fun _ => s!"k{j}"))
      let val? : Option (Option String) :=
        if val == "!" then some none
        else (parseItemTok 'v' val).bind (fun j => (itemOf rt j).map (fun _ => some s!"v{j}"))
      match kp?, val? with
      | some kp, some v => some ⟨proof, kp, v⟩
      | _, _ => none
  | _ => none

def keccakId (s : String) : String := "K(" ++ s ++ ")"

/-- ideal proof runtime: an existence proof verifies exactly its item, under exactly the root of its version -/
def proofRt (rt : Rt) : ProofRt String Pf String String where
  verifyValue := fun p root kp value =>
    p.kind == 'e' && root == (if p.priv then "p1" else if p.ics then "q1" else s!"r{p.ver}") &&
      kp == (if p.priv then s!"pk{p.item}" else s!"k{p.item}") &&
      value == (if rt == .okex then keccakId s!"v{p.item}" else s!"v{p.item}")
  verifyAbsence := fun p root path => p.kind == 'a' && root == s!"r{p.ver}" && path == s!"k{p.item}"
  decodeTx := fun v =>
    match parseItemTok 'v' v with
    | some j => if j == 3 || j == 4 then none else some (s!"tx{j}", s!"cc{j}")
    | none => none

def okexShape (rt : Rt) (p : Pf) : OkexShape :=
  match itemOf rt p.item with
  | some (_, store, klen, pre) => if p.priv then ⟨2, 53, true, store == "evm"⟩ else ⟨2, klen, pre, store == "evm"⟩
  | none => ⟨2, 0, false, false⟩

def key1IsBor (rt : Rt) (p : Pf) : Bool :=
  match itemOf rt p.item with
  | some (_, store, _, _) => store == "bor"
  | none => false

def rtOf (family : String) : Rt :=
  if (family.splitOn "okex").length > 1 then .okex
  else if (family.splitOn "heimdall").length > 1 || (family.splitOn "span").length > 1 then .heimdall
  else .cosmos

def step (family : String) (d : DSt) (toks : List String) : DSt × String :=
  let rt := rtOf family
  match toks with
  | "hdr" :: rest =>
    match parseHdr rt (d.st.info.map (·.blockHash)) rest with
    | some (name, h) => ({ d with hdrs := (name, some h) :: d.hdrs }, "def")
    | none => (d, "bad-op")
  | ["raw", name, hex] =>
    match Hex.ofHex hex with
    | some _ => ({ d with hdrs := (name, none) :: d.hdrs }, "def")
    | none => (d, "bad-op")
  | ["genesis", name] =>
    match lookup d name with
    | none => (d, "bad-op")
    | some h =>
      let (st', r) := genesis d.st true h
      -- a panic leaves the store as it was
      ({ d with st := st' }, outcome st' r (fun _ => "ok"))
  | ["sync", names] =>
    let ns := if names == "-" then [] else names.splitOn ","
    match ns.mapM (lookup d) with
    | none => (d, "bad-op")
    | some hs =>
      let (st', r) := syncBlockHeader (verify rt) d.st hs
      ({ d with st := st' }, outcome st' r (fun _ => "ok"))
  | ["sidechain"] =>
    if rt == .heimdall then (d, "bad-op") else ({ d with sideChain := true }, "ok")
  | ["dep", name, h, pf] =>
    if rt == .heimdall then (d, "bad-op") else
    let hdr? : Option (Option (Option Hdr)) := if name == "-" then some none else (lookup d name).map some
    match hdr?, h.toNat?, parsePf rt pf with
    | some hdr, some h, some inp =>
      if h ≥ 4294967296 then (d, "bad-op") else
      let p : DepParam Nat Nat String String Cm Pf String :=
        ⟨(h : Int), hdr, inp.value.map (fun v => (inp.kp, v)), inp.proof⟩
      let (st', r) := match rt with
        | .okex => depositOkex (verify rt) (proofRt rt) keccakId (okexShape rt) d.sideChain d.st p
        | _ => depositCosmos (verify rt) (proofRt rt) d.st p
      -- (a panic aborts the native call after whatever it has already written)
      ({ d with st := st' }, outcome st' r (fun tx => "ok:" ++ tx))
    | _, _, _ => (d, "bad-op")
  | ["span", name, pf] =>
    if rt != .heimdall then (d, "bad-op") else
    match lookup d name, parsePf rt pf with
    | some (some hdr), some inp =>
      match inp.proof, inp.value with
      | some proof, some value =>
        let r := verifySpan (verify rt) (proofRt rt) (fun _ => 2) (key1IsBor rt) d.st hdr proof inp.kp value
        (d, outcome d.st r (fun tx => "ok:" ++ tx))
      | _, _ => (d, "bad-op")
    | _, _ => (d, "bad-op")
  | _ => (d, "bad-op")

def main (family : String) : IO Unit := Proto.run DSt.init (step family)

end Poly.Model.LCTmDrv
