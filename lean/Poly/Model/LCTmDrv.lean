import Poly.Util.Proto
import Poly.Model.LCTm
/-! Line-protocol adapter of the Tendermint-family light-client model (C30) for `drv_lc`.
Families whose name starts with `tm`. The op vocabulary is documented in `harness/cmd/hlc/tmcommon.go`.

Ideal instantiation of the external cryptography: addresses and keys are pool indices (the harness orders its key
pool by address), a hash is the canonical text of what was hashed, a signature verifies under exactly the key that
made it, over exactly the chain id it was made for; a Merkle proof verifies exactly what it was built for. -/
namespace Poly.Model.LCTmDrv
open Poly Poly.Model.LCTm

inductive Rt where
  | cosmos | okex | heimdall
  deriving DecidableEq

abbrev V := Val Nat Nat

/-- proof descriptor (see tmdep.go): kind, store root id, message id, variant flags -/
structure Pf where
  desc : String
  deriving Inhabited

inductive Cm where
  | tm (c : Commit Nat String String)
  | h (c : HCommit Nat String String)

abbrev Hdr := Header Nat Nat String String Cm

structure DSt where
  hdrs : List (String × Option Hdr)
  st : St String String String

def DSt.init : DSt := ⟨[], St.empty⟩

/-! ### descriptors -/

def parseVal (s : String) : Option V :=
  let (body, addr?) := match s.splitOn "@" with
    | [b, a] => (b, a.toNat?.map some)
    | [b] => (b, some none)
    | _ => (s, none)
  match addr?, body.splitOn ":" with
  | some a?, [k, p] =>
    match k.toNat?, p.toInt? with
    | some k, some p =>
      let a := a?.getD k
      if k < 12 && a < 12 then some ⟨a, k, p⟩ else none
    | _, _ => none
  | _, _ => none

def parseVals (s : String) : Option (List V) :=
  if s == "-" then some [] else (s.splitOn ",").mapM parseVal

def le (a b : Nat) : Bool := a ≤ b

def showKP (v : V) : String := s!"{v.key}:{v.power}"

/-- id of the amino (legacy) hash of a set given in `Validators` order -/
def legacyId (vs : List V) : String :=
  if vs.isEmpty then "e" else "L" ++ ",".intercalate (vs.map showKP)

/-- id of the protobuf (tendermint 0.34) hash: order by power (descending), then address -/
def newId (vs : List V) : String :=
  "N" ++ ",".intercalate ((vs.mergeSort (fun a b => decide (a.power > b.power) || (a.power == b.power && a.key ≤ b.key))).map showKP)

def hashes : Hashes Nat Nat String := ⟨legacyId, newId⟩

/-- hash descriptor → id -/
def hashDesc (rt : Rt) (s : String) (own : List V) (ver : Nat) : Option String :=
  if s == "e" then some "e"
  else if s == "" then none
  else if s.startsWith "x" then some s
  else
    let kindSet : Option (Char × List V) :=
      if s == "=" then some (if rt == .cosmos && ver ≥ 11 then 'N' else 'L', own)
      else if s == "L=" then some ('L', own)
      else if s == "N=" then some ('N', own)
      else match s.toList with
        | c :: rest => if c == 'L' || c == 'N' then (parseVals (String.ofList rest)).map (fun vs => (c, vs)) else none
        | [] => none
    match kindSet with
    | none => none
    | some (kind, set) =>
      match newValidatorSet le set with
      | none => none
      | some sorted =>
        if kind == 'N' then
          if rt != .cosmos || !keysDistinct (set.map (·.key)) then none else some (newId sorted)
        else some (legacyId sorted)

def splitAt? (s : String) : String × Option String :=
  match s.splitOn "@" with
  | [a, b] => (a, some b)
  | _ => (s, none)

structure SlotD where
  kind : Char
  key : Nat
  vidx : Option Nat
  copyOf : Option Nat

def parseSlot (heimdall : Bool) (p : String) : Option SlotD :=
  match p.toList with
  | [] => none
  | kind :: restL =>
    let rest0 := String.ofList restL
    let (rest, at?) := splitAt? rest0
    let vidx? : Option (Option Nat) := match at? with
      | none => some none
      | some a => if heimdall then (a.toNat?.bind fun v => if v ≤ 64 then some (some v) else none) else none
    match vidx? with
    | none => none
    | some vidx =>
      let bare := if heimdall then "ab" else "abA"
      let kinds := if heimdall then "gnwthr" else "gnwEu"
      if bare.toList.contains kind then
        if rest != "" || (kind == 'a' && vidx.isSome) then none else some ⟨kind, 0, vidx, none⟩
      else if kinds.toList.contains kind then
        match rest.toNat? with
        | some v => if v < 12 then some ⟨kind, v, vidx, none⟩ else none
        | none => none
      else if heimdall && kind == '=' then
        match rest.toNat? with
        | some v => if v ≤ 64 && vidx.isNone then some ⟨kind, 0, none, some v⟩ else none
        | none => none
      else none

def parseSlots (heimdall : Bool) (s : String) : Option (List SlotD) :=
  if s == "-" then some [] else (s.splitOn ",").mapM (parseSlot heimdall)

/-- key that genuinely signed the vote of a slot (`none`: no valid signature under any key) -/
def signerOf (d : SlotD) : Option Nat :=
  if "gnthr".toList.contains d.kind then some d.key else none

def tmSlot (d : SlotD) : Slot :=
  match d.kind with
  | 'a' => ⟨.absent, true⟩
  | 'g' => ⟨.commit, true⟩
  | 'n' => ⟨.nil, true⟩
  | 'w' => ⟨.commit, true⟩
  | 'b' => ⟨.commit, true⟩
  | 'A' => ⟨.absent, false⟩
  | 'E' => ⟨.commit, false⟩
  | _ => ⟨.other, false⟩

def mkVer (signers : List (Option Nat)) (signChain : String) : String → Nat → Nat → Bool :=
  fun chain idx k => signChain == chain && (match signers[idx]? with | some (some i) => i == k | _ => false)

def resolveCopies (ds : List SlotD) : Option (List (SlotD × Nat)) :=
  -- every slot with the position its content was made for
  (ds.zipIdx).mapM fun (d, i) =>
    match d.copyOf with
    | none => some (d, i)
    | some j =>
      if j == i then none else
      match ds[j]? with
      | some dj => if dj.kind == '=' || dj.kind == 'a' then none else some (dj, j)
      | none => none

def hVote (cheight round : Int) (zero : Bool) (d : SlotD) (madeFor : Nat) : Option HVote :=
  if d.kind == 'a' then none
  else some {
    isPrecommit := d.kind != 't'
    height := if d.kind == 'h' then cheight + 1 else cheight
    round := if d.kind == 'r' then round + 1 else round
    blockEq := if d.kind == 'n' then zero else true
    index := ((d.vidx.getD madeFor : Nat) : Int) }

def parseHdr (rt : Rt) (toks : List String) : Option (String × Hdr) :=
  match toks with
  | name :: ver :: chain :: height :: vh :: nvh :: app :: vals :: commit =>
    match ver.toNat?, height.toInt?, parseVals vals with
    | some ver, some height, some vals =>
      if ver ≥ 4294967296 then none else
      match hashDesc rt vh vals ver, hashDesc rt nvh vals ver with
      | some vhId, some nvhId =>
        if !(app == "e" || app.startsWith "x" || app.startsWith "r") then none else
        let hash := if vhId == "e" then "e" else s!"H({ver}/{chain}/{height}/{vhId}/{nvhId}/{app})"
        let mk (c : Option Cm) : Hdr := ⟨ver, chain, height, vhId, nvhId, app, hash, vals, c⟩
        match commit with
        | ["nil"] => some (name, mk none)
        | [cheight, round, bid, signChain, slots] =>
          match cheight.toInt?, round.toInt?, parseSlots (rt == .heimdall) slots with
          | some cheight, some round, some ds =>
            if round < -2147483648 || round > 2147483647 then none else
            let bh? : Option (String × Bool) :=
              if bid == "=" then some (hash, false) else if bid == "o" then some ("o", false)
              else if bid == "z" then some ("e", true) else none
            match bh? with
            | none => none
            | some (bh, zero) =>
              if rt == .heimdall then
                match resolveCopies ds with
                | none => none
                | some rs =>
                  let votes := rs.map fun (d, j) => hVote cheight round zero d j
                  let signers := rs.map fun (d, _) => signerOf d
                  some (name, mk (some (.h ⟨bh, zero, votes, mkVer signers signChain⟩)))
              else
                if ds.any (fun d => d.copyOf.isSome) then none else
                some (name, mk (some (.tm ⟨cheight, round, bh, zero, ds.map tmSlot, mkVer (ds.map signerOf) signChain⟩)))
          | _, _, _ => none
        | _ => none
      | _, _ => none
    | _, _, _ => none
  | _ => none

/-! ### verification by router -/

def asTm (h : Hdr) : Header Nat Nat String String (Commit Nat String String) :=
  { h with commit := h.commit.bind fun c => match c with | .tm c => some c | .h _ => none }

def asH (h : Hdr) : Header Nat Nat String String (HCommit Nat String String) :=
  { h with commit := h.commit.bind fun c => match c with | .h c => some c | .tm _ => none }

def verify (rt : Rt) : Verifier Nat Nat String String Cm := fun h info =>
  match rt with
  | .cosmos => verifyTm .cosmos le hashes (asTm h) info
  | .okex => verifyTm .okex le hashes (asTm h) info
  | .heimdall => verifyH le hashes (asH h) info

def showErr : Err → String
  | .panic => "panic"
  | e => "reject:" ++ (match e with
    | .witness => "witness" | .dup => "dup" | .unmarshal => "unmarshal" | .noinfo => "noinfo" | .useless => "useless"
    | .valhash => "valhash" | .hdrvalhash => "hdrvalhash" | .commitheight => "commitheight" | .commithash => "commithash"
    | .basic => "basic" | .size => "size" | .index => "index" | .noval => "noval" | .votetype => "votetype" | .sig => "sig"
    | .power => "power" | .low => "low" | .nohdr => "nohdr" | .height => "height" | .pv => "pv" | .proof => "proof"
    | .nochain => "nochain" | .proofsize => "proofsize" | .keylen => "keylen" | .keyprefix => "keyprefix"
    | .module => "module" | .kp => "kp" | .verify => "verify" | .txparam => "txparam" | .done => "done" | .span => "span"
    | .panic => "panic")

def showTracked (st : St String String String) : String :=
  match st.info with
  | none => "-"
  | some i => s!"h={i.height} n={i.next} c={i.chain} b={i.blockHash}"

def outcome {ε : Type} (st : St String String String) (r : Except Err ε) (okText : ε → String) : String :=
  match r with
  | .error .panic => "panic"
  | .error e => showErr e ++ " " ++ showTracked st
  | .ok v => okText v ++ " " ++ showTracked st

def lookup (d : DSt) (n : String) : Option (Option Hdr) := (d.hdrs.find? (·.1 == n)).map (·.2)

def rtOf (family : String) : Rt :=
  if (family.splitOn "okex").length > 1 then .okex
  else if (family.splitOn "heimdall").length > 1 || (family.splitOn "span").length > 1 then .heimdall
  else .cosmos

def step (family : String) (d : DSt) (toks : List String) : DSt × String :=
  let rt := rtOf family
  match toks with
  | "hdr" :: rest =>
    match parseHdr rt rest with
    | some (name, h) => ({ d with hdrs := (name, some h) :: d.hdrs }, "def")
    | none => (d, "bad-op")
  | ["raw", name, hex] =>
    match Hex.ofHex hex with
    | some _ => ({ d with hdrs := (name, none) :: d.hdrs }, "def")
    | none => (d, "bad-op")
  | ["genesis", name] =>
    match lookup d name with
    | none => (d, "bad-op")
    | some h =>
      let (st', r) := genesis d.st true h
      -- a panic leaves the store as it was
      ({ d with st := st' }, outcome st' r (fun _ => "ok"))
  | ["sync", names] =>
    let ns := if names == "-" then [] else names.splitOn ","
    match ns.mapM (lookup d) with
    | none => (d, "bad-op")
    | some hs =>
      let (st', r) := syncBlockHeader (verify rt) d.st hs
      ({ d with st := st' }, outcome st' r (fun _ => "ok"))
  | _ => (d, "bad-op")

def main (family : String) : IO Unit := Proto.run DSt.init (step family)

end Poly.Model.LCTmDrv
