/-!
# Model of the Bitcoin light client of `native/service/header_sync/btc` (C27, second instance)

State = `BLOCK_HEADER` (hash ⇀ stored header with height and total work), `HEADER_INDEX` (height ⇀ hash of the best
chain) and the best header record (a full copy, stored under `CURRENT_HEADER_HEIGHT`). `commitHeader`,
`GetCommonAncestor` and `ReIndexHeaderHeight` are transliterated: unlike the Ethereum client this one collects the new
branch top-down, deletes the index entries above a lower new tip and rewrites the branch at `newHeight − i`.

The header hash and the work `CalcWork(bits)` are fields; `CheckHeader` (link, difficulty rule, proof of work) is the
abstract three-valued `check header parent` — `err` aborts the call, `bad` makes the header be skipped silently, as in
the code.
-/
namespace Poly.Model.PoWBtc

structure Hdr (H R : Type) where
  hash : H
  prev : H
  work : Nat
  rules : R

/-- `StoredHeader`. -/
structure Stored (H R : Type) where
  hdr : Hdr H R
  height : Nat
  total : Nat

structure Store (H R : Type) where
  headers : H → Option (Stored H R)   -- BLOCK_HEADER
  index : Nat → Option H              -- HEADER_INDEX
  best : Option (Stored H R)          -- best header record

inductive Check where
  | ok | bad | err
  deriving Repr, DecidableEq, Inhabited

inductive Outcome where
  | known       -- already stored: skipped
  | skipped     -- CheckHeader says invalid (or the header is the tip): nothing stored, no error
  | noBest | orphan | checkError | ancestorError     -- the call fails
  | side        -- stored, best chain unchanged
  | extended    -- new tip on top of the old tip
  | reorged     -- new tip on another branch: index rewritten
  deriving Repr, DecidableEq, Inhabited

def Outcome.failed : Outcome → Bool
  | .noBest | .orphan | .checkError | .ancestorError => true
  | _ => false

section
variable {H R : Type} [DecidableEq H]

def putHeader (s : Store H R) (e : Stored H R) : Store H R :=
  { s with headers := fun k => if k = e.hdr.hash then some e else s.headers k }

def putIndex (s : Store H R) (n : Nat) (h : H) : Store H R :=
  { s with index := fun m => if m = n then some h else s.index m }

def delIndex (s : Store H R) (n : Nat) : Store H R :=
  { s with index := fun m => if m = n then none else s.index m }

/-- `putGenesisBlockHeader` (total work 0). -/
def init (g : Hdr H R) (height : Nat) : Store H R :=
  { headers := fun k => if k = g.hash then some ⟨g, height, 0⟩ else none
    index := fun m => if m = height then some g.hash else none
    best := some ⟨g, height, 0⟩ }

/-- `GetHeaderByHeight`. -/
def headerByHeight (s : Store H R) (n : Nat) : Option (Stored H R) := (s.index n).bind s.headers

/-- Second loop of `GetCommonAncestor`: while the two sides differ, step both to their parents; `majHash`/`minHash`
are the current hashes, `majPrev`/`minPrev` their parent pointers. Fuel bounds the number of steps (the heights
strictly decrease on a consistent store). -/
def meet (s : Store H R) : Nat → H → H → H → H → List H → Option (List H)
  | 0, majHash, _, minHash, _, acc => if majHash = minHash then some acc else none
  | fuel + 1, majHash, majPrev, minHash, minPrev, acc =>
    if majHash = minHash then some acc
    else
      match s.headers majPrev, s.headers minPrev with
      | some a, some b => meet s fuel a.hdr.hash a.hdr.prev b.hdr.hash b.hdr.prev (acc ++ [a.hdr.hash])
      | _, _ => none

/-- `GetCommonAncestor(new, prevBest)`: the hashes of the new branch, top-down, without the common ancestor. -/
def commonAncestor (s : Store H R) (new : Hdr H R) (newHeight : Nat) (best : Stored H R) : Option (List H) :=
  let hdrs0 := [new.hash]
  if newHeight > best.height then
    -- majority walks down to the old best's height
    match walkDownFrom s (newHeight - best.height) new hdrs0 with
    | none => none
    | some (mh, mp, acc) => (meet s (best.height + 1) mh mp best.hdr.hash best.hdr.prev acc).map List.dropLast
  else if best.height > newHeight then
    match headerByHeight s newHeight with
    | none => none
    | some m => (meet s (newHeight + 1) new.hash new.prev m.hdr.hash m.hdr.prev hdrs0).map List.dropLast
  else (meet s (newHeight + 1) new.hash new.prev best.hdr.hash best.hdr.prev hdrs0).map List.dropLast
where
  /-- `k ≥ 1` steps from the (not yet stored) new header: returns the hash and parent pointer reached. -/
  walkDownFrom (s : Store H R) : Nat → Hdr H R → List H → Option (H × H × List H)
    | 0, h, acc => some (h.hash, h.prev, acc)
    | k + 1, h, acc =>
      match s.headers h.prev with
      | none => none
      | some e => walkDownFrom s k e.hdr (acc ++ [e.hdr.hash])

/-- The deletions of `ReIndexHeaderHeight`: heights `bestHeight, bestHeight − 1, …, newHeight + 1`. -/
def deleteAbove (s : Store H R) (newHeight : Nat) : Nat → Store H R
  | 0 => s
  | n + 1 => if n + 1 > newHeight then deleteAbove (delIndex s (n + 1)) newHeight n else s

/-- The writes of `ReIndexHeaderHeight`: `hdrs[i]` at height `newHeight − i` (a `uint32` subtraction in the code). -/
def writeBranch (s : Store H R) (newHeight : Nat) : Nat → List H → Store H R
  | _, [] => s
  | i, h :: rest => writeBranch (putIndex s (newHeight - i) h) newHeight (i + 1) rest

/-- `commitHeader`. -/
def commitHeader (check : Hdr H R → Stored H R → Check) (s : Store H R) (h : Hdr H R) : Store H R × Outcome :=
  match s.best with
  | none => (s, .noBest)
  | some best =>
    let parent := if h.prev = best.hdr.hash then some best else s.headers h.prev
    match parent with
    | none => (s, .orphan)
    | some p =>
      match check h p with
      | .err => (s, .checkError)
      | .bad => (s, .skipped)
      | .ok =>
        if best.hdr.hash = h.hash then (s, .skipped)
        else
          let total := p.total + h.work
          let nb : Stored H R := ⟨h, p.height + 1, total⟩
          if total > best.total then
            if p.hdr.hash = best.hdr.hash then
              (putIndex { putHeader s nb with best := some nb } nb.height h.hash, .extended)
            else
              match commonAncestor s h nb.height best with
              | none => (s, .ancestorError)
              | some hdrs =>
                let s1 := putIndex { putHeader s nb with best := some nb } nb.height h.hash
                (writeBranch (deleteAbove s1 nb.height best.height) nb.height 0 hdrs, .reorged)
          else (putHeader s nb, .side)

/-- One header of `SyncBlockHeader`. -/
def syncHeader (check : Hdr H R → Stored H R → Check) (s : Store H R) (h : Hdr H R) : Store H R × Outcome :=
  match s.headers h.hash with
  | some _ => (s, .known)
  | none => commitHeader check s h

/-- One `SyncBlockHeader` call: all or nothing. -/
def syncCall (check : Hdr H R → Stored H R → Check) (s : Store H R) (hs : List (Hdr H R)) : Store H R × List Outcome :=
  let rec go (cur : Store H R) (outs : List Outcome) : List (Hdr H R) → Store H R × List Outcome
    | [] => (cur, outs.reverse)
    | h :: rest =>
      let (s', o) := syncHeader check cur h
      if o.failed then (s, (o :: outs).reverse) else go s' (o :: outs) rest
  go s [] hs

def run (check : Hdr H R → Stored H R → Check) (g : Hdr H R) (gHeight : Nat) (calls : List (List (Hdr H R))) : Store H R :=
  calls.foldl (fun s hs => (syncCall check s hs).1) (init g gHeight)

end
end Poly.Model.PoWBtc
