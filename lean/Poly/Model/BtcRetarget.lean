/-!
# Model of the Bitcoin difficulty retarget of `header_sync/btc` (`calcDiffAdjust`) and of btcd's compact-target codec

`blockchain.CompactToBig`, `blockchain.BigToCompact` and `calcDiffAdjust(start, end, params)` transliterated
(`time.Time.UnixNano` differences of whole-second timestamps; `big.Int.Div` is Euclidean; `Rsh` on a negative
`big.Int` rounds towards minus infinity).
-/
namespace Poly.Model.BtcRetarget

/-- `blockchain.CompactToBig`. -/
def compactToBig (bits : Nat) : Int :=
  let mantissa := bits % 8388608            -- bits & 0x007fffff
  let negative := (bits / 8388608) % 2 = 1  -- bits & 0x00800000
  let exponent := (bits / 16777216) % 256   -- uint(bits >> 24) of a uint32
  let v : Nat := if exponent ≤ 3 then mantissa / 2 ^ (8 * (3 - exponent)) else mantissa * 2 ^ (8 * (exponent - 3))
  if negative then -(v : Int) else (v : Int)

/-- Number of bytes of the absolute value (`len(n.Bytes())`). -/
def byteLen : Nat → Nat → Nat
  | 0, _ => 0
  | fuel + 1, n => if n = 0 then 0 else byteLen fuel (n / 256) + 1

/-- `blockchain.BigToCompact`. -/
def bigToCompact (n : Int) : Nat :=
  if n = 0 then 0
  else
    let exponent := byteLen 64 n.natAbs
    let mantissa : Nat :=
      if exponent ≤ 3 then (n.natAbs % 4294967296) * 2 ^ (8 * (3 - exponent)) % 4294967296
      else (n / (2 ^ (8 * (exponent - 3)) : Int)).natAbs % 4294967296      -- Rsh: floor, then the low word of |.|
    let (mantissa, exponent) := if (mantissa / 8388608) % 2 = 1 then (mantissa / 256, exponent + 1) else (mantissa, exponent)
    let compact := ((exponent * 16777216) % 4294967296) ||| mantissa
    if n < 0 then compact ||| 8388608 else compact

def targetTimespanNs : Int := 1209600000000000      -- 14 days in nanoseconds
def nsPerSec : Int := 1000000000

/-- `calcDiffAdjust(start, end, p)`: timestamps in seconds, `endBits = end.Bits`, `powLimit = p.PowLimit`. -/
def calcDiffAdjust (startSec endSec endBits : Nat) (powLimit : Int) : Nat :=
  let duration : Int := (endSec : Int) * nsPerSec - (startSec : Int) * nsPerSec
  let duration :=
    if duration < targetTimespanNs / 4 then targetTimespanNs / 4
    else if duration > targetTimespanNs * 4 then targetTimespanNs * 4 else duration
  let newTarget := (compactToBig endBits * duration) / targetTimespanNs
  let newTarget := if newTarget > powLimit then powLimit else newTarget
  bigToCompact newTarget

/-- Bitcoin Core `CalculateNextWorkRequired` on the target value (seconds; `T` = 1 209 600 s). -/
def specNextTarget (oldTarget : Int) (startSec endSec : Nat) (powLimit : Int) : Int :=
  let actual : Int := (endSec : Int) - (startSec : Int)
  let actual := if actual < 1209600 / 4 then 1209600 / 4 else if actual > 1209600 * 4 then 1209600 * 4 else actual
  let t := oldTarget * actual / 1209600
  if t > powLimit then powLimit else t

end Poly.Model.BtcRetarget
