import Poly.Model.EthDeposit
/-!
# Model of `json.Unmarshal(proof, &ETHProof{})` (C23)

A JSON reader (RFC 8259 grammar as Go's scanner accepts it) and the field assignment of `encoding/json` for the
`ETHProof` struct: exact key match first, otherwise ASCII case-insensitive; unknown keys ignored; the last duplicate
wins; `null` leaves a string untouched and empties a slice; a value of the wrong JSON type is an error (reported after
the whole value has been walked); a top-level `null` leaves the zero struct; any syntax error or trailing non-space is an
error. Input restricted to ASCII (the Unicode case folds `K`/`ſ` of key matching, UTF-8 repair and the re-use of slice
elements by a duplicate key holding `null` elements are outside the model; the generator does not produce them).
-/
namespace Poly.Model.ProofJson
open Poly.Model.EthDeposit

inductive J where
  | null
  | bool (b : Bool)
  | num
  | str (s : List Char)
  | arr (l : List J)
  | obj (kv : List (List Char × J))

def isWs (c : Char) : Bool := c == ' ' || c == '\t' || c == '\n' || c == '\r'

def skipWs : List Char → List Char
  | c :: rest => if isWs c then skipWs rest else c :: rest
  | [] => []

def isDigit (c : Char) : Bool := '0' ≤ c && c ≤ '9'

def digits : List Char → List Char
  | c :: rest => if isDigit c then digits rest else c :: rest
  | [] => []

/-- `-?(0|[1-9][0-9]*)(\.[0-9]+)?([eE][+-]?[0-9]+)?`; returns the rest. -/
def parseNumber (s : List Char) : Option (List Char) :=
  let s := match s with | '-' :: r => r | _ => s
  let afterInt : Option (List Char) := match s with
    | '0' :: r => some r
    | c :: r => if isDigit c then some (digits r) else none
    | [] => none
  match afterInt with
  | none => none
  | some s =>
    let afterFrac : Option (List Char) := match s with
      | '.' :: c :: r => if isDigit c then some (digits r) else none
      | '.' :: [] => none
      | _ => some s
    match afterFrac with
    | none => none
    | some s =>
      match s with
      | e :: r =>
        if e == 'e' || e == 'E' then
          let r := match r with | '+' :: r' => r' | '-' :: r' => r' | _ => r
          match r with
          | c :: r' => if isDigit c then some (digits r') else none
          | [] => none
        else some s
      | [] => some s

def hex4 : List Char → Option (Nat × List Char)
  | a :: b :: c :: d :: rest =>
    match hexDigit? a, hexDigit? b, hexDigit? c, hexDigit? d with
    | some w, some x, some y, some z => some (((w * 16 + x) * 16 + y) * 16 + z, rest)
    | _, _, _, _ => none
  | _ => none

/-- The characters after the opening quote up to the closing quote, escapes decoded. -/
def parseString : Nat → List Char → List Char → Option (List Char × List Char)
  | 0, _, _ => none
  | fuel + 1, s, acc =>
    match s with
    | [] => none
    | '"' :: rest => some (acc.reverse, rest)
    | '\\' :: e :: rest =>
      if e == 'u' then
        match hex4 rest with
        | some (n, rest') => parseString fuel rest' (Char.ofNat n :: acc)
        | none => none
      else
        let d : Option Char :=
          if e == '"' then some '"' else if e == '\\' then some '\\' else if e == '/' then some '/'
          else if e == 'b' then some (Char.ofNat 8) else if e == 'f' then some (Char.ofNat 12)
          else if e == 'n' then some '\n' else if e == 'r' then some '\r' else if e == 't' then some '\t' else none
        match d with
        | some c => parseString fuel rest (c :: acc)
        | none => none
    | '\\' :: [] => none
    | c :: rest => if c.toNat < 32 then none else parseString fuel rest (c :: acc)

def matchLit (lit : List Char) (s : List Char) : Option (List Char) :=
  if s.take lit.length = lit then some (s.drop lit.length) else none

mutual
  /-- One JSON value at the head of `s` (no leading space); returns the rest. -/
  def parseValue : Nat → List Char → Option (J × List Char)
    | 0, _ => none
    | fuel + 1, s =>
      match s with
      | 'n' :: _ => (matchLit "null".toList s).map fun r => (J.null, r)
      | 't' :: _ => (matchLit "true".toList s).map fun r => (J.bool true, r)
      | 'f' :: _ => (matchLit "false".toList s).map fun r => (J.bool false, r)
      | '"' :: rest => (parseString (rest.length + 1) rest []).map fun (v, r) => (J.str v, r)
      | '[' :: rest =>
        match skipWs rest with
        | ']' :: r => some (J.arr [], r)
        | r => (parseElems fuel r []).map fun (l, r') => (J.arr l, r')
      | '{' :: rest =>
        match skipWs rest with
        | '}' :: r => some (J.obj [], r)
        | r => (parseMembers fuel r []).map fun (l, r') => (J.obj l, r')
      | _ => (parseNumber s).map fun r => (J.num, r)

  /-- `value (ws , ws value)* ws ]` -/
  def parseElems : Nat → List Char → List J → Option (List J × List Char)
    | 0, _, _ => none
    | fuel + 1, s, acc =>
      match parseValue fuel s with
      | none => none
      | some (v, r) =>
        match skipWs r with
        | ',' :: r' => parseElems fuel (skipWs r') (v :: acc)
        | ']' :: r' => some ((v :: acc).reverse, r')
        | _ => none

  /-- `string ws : ws value (ws , ws string ws : ws value)* ws }` -/
  def parseMembers : Nat → List Char → List (List Char × J) → Option (List (List Char × J) × List Char)
    | 0, _, _ => none
    | fuel + 1, s, acc =>
      match s with
      | '"' :: rest =>
        match parseString (rest.length + 1) rest [] with
        | none => none
        | some (k, r) =>
          match skipWs r with
          | ':' :: r1 =>
            match parseValue fuel (skipWs r1) with
            | none => none
            | some (v, r2) =>
              match skipWs r2 with
              | ',' :: r3 => parseMembers fuel (skipWs r3) ((k, v) :: acc)
              | '}' :: r3 => some (((k, v) :: acc).reverse, r3)
              | _ => none
          | _ => none
      | _ => none
end

/-- The whole input is one JSON value surrounded by optional white space. -/
def parseJson (s : List Char) : Option J :=
  match parseValue (s.length + 1) (skipWs s) with
  | some (v, r) => if (skipWs r).isEmpty then some v else none
  | none => none

/-! ## Field assignment -/

def lowerAscii (s : List Char) : List Char := s.map lower

/-- Index of the field a key addresses: exact name first, else the first name equal up to ASCII case. -/
def fieldOf (names : List (List Char)) (key : List Char) : Option Nat :=
  match names.idxOf? key with
  | some i => some i
  | none => (names.map lowerAscii).idxOf? (lowerAscii key)

/-- A `string` field: JSON string sets it, `null` keeps it, anything else is a type error (flag) and keeps it. -/
def setStr (cur : String) (v : J) : String × Bool :=
  match v with
  | .str s => (String.ofList s, false)
  | .null => (cur, false)
  | _ => (cur, true)

/-- A `[]string` field. -/
def setStrs (cur : List String) (v : J) : List String × Bool :=
  match v with
  | .null => ([], false)
  | .arr l =>
    (l.map (fun e => match e with | .str s => String.ofList s | _ => ""),
     l.any (fun e => match e with | .str _ => false | .null => false | _ => true))
  | _ => (cur, true)

def spNames : List (List Char) := ["key".toList, "value".toList, "proof".toList]

/-- One `StorageProof` element. -/
def setSp (v : J) : StorageProof × Bool :=
  match v with
  | .null => (⟨"", []⟩, false)
  | .obj kv =>
    kv.foldl (fun (acc : StorageProof × Bool) (m : List Char × J) =>
      match fieldOf spNames m.1 with
      | some 0 => let (s, e) := setStr acc.1.key m.2; ({ acc.1 with key := s }, acc.2 || e)
      | some 1 => (acc.1, acc.2 || (setStr "" m.2).2)          -- `value` is decoded but never read
      | some 2 => let (l, e) := setStrs acc.1.proof m.2; ({ acc.1 with proof := l }, acc.2 || e)
      | _ => acc) (⟨"", []⟩, false)
  | _ => (⟨"", []⟩, true)

def setSps (cur : List StorageProof) (v : J) : List StorageProof × Bool :=
  match v with
  | .null => ([], false)
  | .arr l => (l.map (fun e => (setSp e).1), l.any (fun e => (setSp e).2))
  | _ => (cur, true)

def proofNames : List (List Char) :=
  ["address".toList, "balance".toList, "codeHash".toList, "nonce".toList, "storageHash".toList,
   "accountProof".toList, "storageProof".toList]

/-- `json.Unmarshal(bytes, &ETHProof{})`; `none` = error. -/
def unmarshalProof (bytes : List Char) : Option EthProof :=
  match parseJson bytes with
  | none => none
  | some .null => some ⟨"", "", "", "", "", [], []⟩
  | some (.obj kv) =>
    let (p, err) := kv.foldl (fun (acc : EthProof × Bool) (m : List Char × J) =>
      match fieldOf proofNames m.1 with
      | some 0 => let (s, e) := setStr acc.1.address m.2; ({ acc.1 with address := s }, acc.2 || e)
      | some 1 => let (s, e) := setStr acc.1.balance m.2; ({ acc.1 with balance := s }, acc.2 || e)
      | some 2 => let (s, e) := setStr acc.1.codeHash m.2; ({ acc.1 with codeHash := s }, acc.2 || e)
      | some 3 => let (s, e) := setStr acc.1.nonce m.2; ({ acc.1 with nonce := s }, acc.2 || e)
      | some 4 => let (s, e) := setStr acc.1.storageHash m.2; ({ acc.1 with storageHash := s }, acc.2 || e)
      | some 5 => let (l, e) := setStrs acc.1.accountProof m.2; ({ acc.1 with accountProof := l }, acc.2 || e)
      | some 6 => let (l, e) := setSps acc.1.storageProofs m.2; ({ acc.1 with storageProofs := l }, acc.2 || e)
      | _ => acc) ((⟨"", "", "", "", "", [], []⟩ : EthProof), false)
    if err then none else some p
  | some _ => none

end Poly.Model.ProofJson
