/-
Model of transaction signature validation (C39): core/validation/transaction_validator.go
checkTransactionSignatures, core/signature/signature.go Verify / VerifyMultiSignature, and the attribution of
signer addresses (core/types/address.go AddressFromPubKey / AddressFromMultiPubKeys).

External cryptography is a parameter: `wf s` = the signature bytes deserialize, `verify k s` = the scheme's
verification of the transaction hash under public key `k` (only consulted for well-formed signatures);
`addr1 k` / `addrM keys m` = the address functions (RIPEMD160 . SHA256 of the program). Keys and signatures are
opaque types `K`, `S`. `sig.M` is a uint16, so `m` is a natural number and `m <= 0` means `m = 0`.
-/
namespace Poly.Model.Sig

def TX_MAX_SIG_SIZE : Nat := 16
def MULTI_SIG_MAX_PUBKEY_SIZE : Nat := 16

inductive Err where
  | tooManySigs        -- "transaction signature number %d execced %d"
  | wrongParam         -- "wrong tx sig param length"
  | sigFailed          -- single key: "signature verification failed" (incl. undecodable signature)
  | notEnough          -- VerifyMultiSignature: "not enough signatures in multi-signature"
  | invalidSigData     -- VerifyMultiSignature: "invalid signature data"
  | multiFailed        -- VerifyMultiSignature: "multi-signature verification failed"
deriving Repr, DecidableEq

structure Entry (K S : Type) where
  keys : List K
  m : Nat
  sigs : List S

section
variable {K S A : Type} (wf : S → Bool) (verify : K → S → Bool)

/-- `for j := 0; j < n; j++ { if mask[j] continue; if Verify(keys[j], sig) {...} }`: first unmasked verifying
    position. The Boolean slice `mask` is represented by the list `used` of the positions set to true. -/
def findKey (keys : List K) (used : List Nat) (s : S) : Nat → Option Nat
  | j =>
    if h : j < keys.length then
      if used.contains j then findKey keys used s (j + 1)
      else if verify keys[j] s then some j
      else findKey keys used s (j + 1)
    else none
termination_by j => keys.length - j

/-- The outer loop of VerifyMultiSignature over the first `m` signatures; returns the chosen positions in order. -/
def multiLoop (keys : List K) : List S → List Nat → Except Err (List Nat)
  | [], _ => .ok []
  | s :: rest, used =>
    if !wf s then .error .invalidSigData
    else
      match findKey verify keys used s 0 with
      | none => .error .multiFailed
      | some j =>
        match multiLoop keys rest (j :: used) with
        | .ok ps => .ok (j :: ps)
        | .error e => .error e

/-- `signature.VerifyMultiSignature(data, keys, m, sigs)`; on success the key position matched to each of the
    first `m` signatures. -/
def verifyMultiSignature (keys : List K) (m : Nat) (sigs : List S) : Except Err (List Nat) :=
  if sigs.length < m then .error .notEnough
  else multiLoop wf verify keys (sigs.take m) []

variable (addr1 : K → A) (addrM : List K → Nat → A)

/-- One iteration of the loop of checkTransactionSignatures: the address attributed to the entry. -/
def checkEntry (e : Entry K S) : Except Err A :=
  let m := e.m
  let kn := e.keys.length
  let sn := e.sigs.length
  if kn > MULTI_SIG_MAX_PUBKEY_SIZE || sn < m || m > kn || m == 0 then .error .wrongParam
  else
    match e.keys, e.sigs with
    | [k], s :: _ => if wf s && verify k s then .ok (addr1 k) else .error .sigFailed
    | [_], [] => .error .wrongParam      -- unreachable (sn >= m >= 1); Go would index sig.SigData[0]
    | keys, sigs =>
      match verifyMultiSignature wf verify keys m sigs with
      | .error err => .error err
      | .ok _ => .ok (addrM keys m)

def checkEntries : List (Entry K S) → Except Err (List A)
  | [] => .ok []
  | e :: rest =>
    match checkEntry wf verify addr1 addrM e with
    | .error err => .error err
    | .ok a =>
      match checkEntries rest with
      | .error err => .error err
      | .ok as => .ok (a :: as)

/-- `checkTransactionSignatures`: on success the addresses attributed to the entries, in entry order, before the
    Go map removes repetitions (tx.SignedAddr is that map's key set in unspecified order). -/
def checkTransactionSignatures (entries : List (Entry K S)) : Except Err (List A) :=
  if entries.length > TX_MAX_SIG_SIZE then .error .tooManySigs
  else checkEntries wf verify addr1 addrM entries

end

/-- Key set of the Go map `address` as a duplicate-free list (first occurrences). -/
def dedup {A : Type} [DecidableEq A] : List A → List A
  | [] => []
  | a :: r => if a ∈ r then dedup r else a :: dedup r

end Poly.Model.Sig
