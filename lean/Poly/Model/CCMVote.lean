import Poly.Model.CCM
/-!
# The consensus-vote router (`cross_chain_manager/consensus_vote`) as an instance of the verification oracle

`VoteHandler.MakeDepositProposal`: witness of the relayer address, vote id = H(source chain, height, extra),
`CheckVotes` (tally of the current consensus peers, threshold `(2·sum+2)/3`), then decoding of `extra`.
Signers and validators are identified by small numbers (the harness maps them to keys and addresses).
-/
namespace Poly.Model.CCM

structure VoteAux where
  /-- signer ids of the peers with consensus status in the current view -/
  consensus : List Nat
  /-- `voteInfo` records: vote id ↦ (status, voters) -/
  tallies : List (Bytes × (Bool × List Nat))

structure VoteInput where
  src : Nat
  /-- `tx.SignedAddr` -/
  signers : List Nat
  /-- `EntranceParam.RelayerAddress` as a signer id; `none` when it is not 20 bytes long -/
  relayer : Option Nat
  /-- `EntranceParam.Height` -/
  height : Nat
  /-- `EntranceParam.Extra` -/
  extra : Bytes
  /-- result of `MakeTxParam.Deserialization(extra)` -/
  decoded : Option MakeTxParam
  /-- eth router only: the storage proof verifies against the synced header and commits to `extra`
  (an oracle value supplied with the input; the eth verification itself is C23) -/
  proofValid : Bool := false

/-- serialization of the `unique` EntranceParam (proof, relayer address and header are empty) -/
def voteIdPreimage (src height : Nat) (extra : Bytes) : Bytes :=
  u64le src ++ u32le height ++ [0] ++ [0] ++ varBytes extra ++ [0]

def voteVerify (H : Bytes → Bytes) (aux : VoteAux) (inp : VoteInput) : Verdict VoteAux :=
  match inp.relayer with
  | none => .reject "relayer-addr"
  | some a =>
    if a ∉ inp.signers then .reject "witness" else
    let id := H (voteIdPreimage inp.src inp.height inp.extra)
    let (status, voters) := match aux.tallies.lookup id with
      | some t => t
      | none => (false, [])
    if status then .pending aux else
    if a ∉ aux.consensus then .reject "not-consensus" else
    let sum := aux.consensus.length
    let num := (aux.consensus.filter (· ∈ voters)).length
    let flag := a ∉ voters
    let voters' := if flag then a :: voters else voters
    let num' := if flag then num + 1 else num
    if num' ≥ (2 * sum + 2) / 3 then
      match inp.decoded with
      | none => .reject "extra"
      | some p => .accept p { aux with tallies := putAssoc aux.tallies id (true, voters') }
    else
      .pending (if flag then { aux with tallies := putAssoc aux.tallies id (false, voters') } else aux)

def ETH_ROUTER : Nat := 2
/-- routers whose handler verifies an Ethereum storage proof against a synced header (eth, bsc, heco, pixiechain,
hsc, bytom): driven with synthetic state tries, the verdict of the proof verification is supplied with the input -/
def ethLikeRouters : List Nat := [2, 6, 7, 19, 20, 22]
def QUORUM_ROUTER : Nat := 8

/-- Oracles of the driver: the vote router is the model above; the eth-like routers accept exactly the inputs
whose storage proof the harness built validly (`proofValid`); the ripple router collects votes in the same tallies
and, once the quorum is reached, needs asset-binding records that the harness never plants (so it fails: with
`done` when the message is already marked, otherwise in the binding lookup); every other router rejects (the
harness feeds them inputs without valid proofs); the BTC / ripple transaction builders fail on the harness' inputs. -/
def voteOracles (H : Bytes → Bytes) : Oracles VoteAux VoteInput where
  verify router _ s inp :=
    if router = VOTE_ROUTER then voteVerify H s.aux inp
    else if router = RIPPLE_ROUTER then
      match voteVerify H s.aux inp with
      | .accept p _ => if (inp.src, p.crossChainID) ∈ s.done then .reject "done" else .reject "verify"
      | v => v
    else if router ∈ ethLikeRouters then
      if inp.proofValid then
        match inp.decoded with
        | some p => .accept p s.aux
        | none => .reject "verify"
      else .reject "verify"
    else if router = QUORUM_ROUTER then
      -- the quorum router decodes the (still unverified) message and performs the done check before it verifies the
      -- proof; the harness gives it no valid proof, so it always fails — with `done` when the id is already marked
      match inp.decoded with
      | some p => if (inp.src, p.crossChainID) ∈ s.done then .reject "done" else .reject "verify"
      | none => .reject "verify"
    else .reject "verify"
  btcMake _ _ _ _ := none
  rippleMake _ _ _ _ := none

end Poly.Model.CCM
