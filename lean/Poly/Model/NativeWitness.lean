import Poly.Model.Native
/-
Witness guards of the privileged native methods (C18) and the derivation of the consensus operator address.

* `native/service/utils/operation.go`              — `ValidateOwner` = `CheckWitness` or error;
* `native/service/governance/node_manager/utils.go` — `GetCurConOperator`, the quorum count of `CheckConsensusSigns`;
* `core/types/address.go`                           — `AddressFromBookkeepers` (m = n − ⌊(n−1)/3⌋ multi-signature address).

A privileged method has the shape `guard; body`: the guard runs before the first state write (established from the Go
source by the translator `extract/guards` and compared with `guardTable` below), the body is arbitrary.
Go maps (the peer pool) are lists in an explicit iteration order. Core-only.
-/
namespace Poly.Model.Native

/-- How a registered native method is guarded before its first state write. -/
inductive Guard where
  | operator        -- ValidateOwner(GetCurConOperator()), error returned
  | ownerParam      -- ValidateOwner(<address named by the parameters>), error returned
  | operatorOrDue   -- CommitDpos: operator witness, or the epoch is due (height − view.height ≥ MaxBlockChangeView)
  | none            -- no witness guard (guarded by proofs, signatures, quorum or once-only checks; other properties)
deriving DecidableEq, Repr

def Guard.ofString : String → Option Guard
  | "operator" => some .operator
  | "owner" => some .ownerParam
  | "operatorOrDue" => some .operatorOrDue
  | "none" => some .none
  | _ => Option.none

def Guard.toString : Guard → String
  | .operator => "operator"
  | .ownerParam => "owner"
  | .operatorOrDue => "operatorOrDue"
  | .none => "none"

/-- A guarded method as a handler program: `required` is the address the guard asks a witness for, `due` the epoch
flag, `body` whatever the method does once authorised. -/
def guarded (g : Guard) (required : Addr) (due : Bool) (body : Prog) : Prog :=
  match g with
  | .none => body
  | .operator => .witness required fun ok => if ok then body else .log "reject:witness" .fail
  | .ownerParam => .witness required fun ok => if ok then body else .log "reject:witness" .fail
  | .operatorOrDue => .witness required fun ok => if ok || due then body else .log "reject:witness" .fail

/-- Hand-written expectation: every method registered by the eight native contracts, and the per-chain
`SyncGenesisHeader` handlers behind the header-sync entrance, with the guard that must precede its first write.
(contract or handler package, method) ↦ guard. Compared with the table regenerated from the Go source. -/
def guardTable : List ((String × String) × Guard) := [
  (("cross_chain_manager", "BlackChain"), .operator),
  (("cross_chain_manager", "ImportOuterTransfer"), .none),
  (("cross_chain_manager", "MultiSign"), .none),
  (("cross_chain_manager", "MultiSignRipple"), .none),
  (("cross_chain_manager", "ReconstructRippleTx"), .none),
  (("cross_chain_manager", "WhiteChain"), .operator),
  (("cross_chain_manager/bsc", "MakeDepositProposal"), .none),
  (("cross_chain_manager/btc", "MakeDepositProposal"), .none),
  (("cross_chain_manager/bytom", "MakeDepositProposal"), .none),
  (("cross_chain_manager/consensus_vote", "MakeDepositProposal"), .ownerParam),
  (("cross_chain_manager/cosmos", "MakeDepositProposal"), .none),
  (("cross_chain_manager/eth", "MakeDepositProposal"), .none),
  (("cross_chain_manager/harmony", "MakeDepositProposal"), .none),
  (("cross_chain_manager/heco", "MakeDepositProposal"), .none),
  (("cross_chain_manager/hsc", "MakeDepositProposal"), .none),
  (("cross_chain_manager/msc", "MakeDepositProposal"), .none),
  (("cross_chain_manager/neo", "MakeDepositProposal"), .none),
  (("cross_chain_manager/neo3", "MakeDepositProposal"), .none),
  (("cross_chain_manager/neo3legacy", "MakeDepositProposal"), .none),
  (("cross_chain_manager/okex", "MakeDepositProposal"), .none),
  (("cross_chain_manager/ont", "MakeDepositProposal"), .none),
  (("cross_chain_manager/pixiechain", "MakeDepositProposal"), .none),
  (("cross_chain_manager/polygon", "MakeDepositProposal"), .none),
  (("cross_chain_manager/quorum", "MakeDepositProposal"), .none),
  (("cross_chain_manager/ripple", "MakeDepositProposal"), .ownerParam),
  (("cross_chain_manager/starcoin", "MakeDepositProposal"), .none),
  (("cross_chain_manager/zilliqa", "MakeDepositProposal"), .none),
  (("cross_chain_manager/zilliqalegacy", "MakeDepositProposal"), .none),
  (("header_sync", "syncBlockHeader"), .none),
  (("header_sync", "syncCrossChainMsg"), .none),
  (("header_sync", "syncGenesisHeader"), .none),
  (("header_sync/bsc", "SyncGenesisHeader"), .operator),
  (("header_sync/btc", "SyncGenesisHeader"), .operator),
  (("header_sync/bytom", "SyncGenesisHeader"), .operator),
  (("header_sync/cosmos", "SyncGenesisHeader"), .operator),
  (("header_sync/eth", "SyncGenesisHeader"), .operator),
  (("header_sync/harmony", "SyncGenesisHeader"), .operator),
  (("header_sync/heco", "SyncGenesisHeader"), .operator),
  (("header_sync/hsc", "SyncGenesisHeader"), .operator),
  (("header_sync/msc", "SyncGenesisHeader"), .operator),
  (("header_sync/neo", "SyncGenesisHeader"), .operator),
  (("header_sync/neo3", "SyncGenesisHeader"), .operator),
  (("header_sync/neo3legacy", "SyncGenesisHeader"), .operator),
  (("header_sync/okex", "SyncGenesisHeader"), .operator),
  (("header_sync/ont", "SyncGenesisHeader"), .operator),
  (("header_sync/pixiechain", "SyncGenesisHeader"), .operator),
  (("header_sync/polygon:bor", "SyncGenesisHeader"), .operator),
  (("header_sync/polygon:heimdall", "SyncGenesisHeader"), .operator),
  (("header_sync/quorum", "SyncGenesisHeader"), .operator),
  (("header_sync/starcoin", "SyncGenesisHeader"), .operator),
  (("header_sync/zilliqa", "SyncGenesisHeader"), .operator),
  (("header_sync/zilliqalegacy", "SyncGenesisHeader"), .operator),
  (("neo3_state_manager", "approveRegisterStateValidator"), .ownerParam),
  (("neo3_state_manager", "approveRemoveStateValidator"), .ownerParam),
  (("neo3_state_manager", "getCurrentStateValidator"), .none),
  (("neo3_state_manager", "registerStateValidator"), .ownerParam),
  (("neo3_state_manager", "removeStateValidator"), .ownerParam),
  (("node_manager", "approveCandidate"), .ownerParam),
  (("node_manager", "blackNode"), .ownerParam),
  (("node_manager", "commitDpos"), .operatorOrDue),
  (("node_manager", "initConfig"), .none),
  (("node_manager", "quitNode"), .ownerParam),
  (("node_manager", "registerCandidate"), .ownerParam),
  (("node_manager", "unRegisterCandidate"), .ownerParam),
  (("node_manager", "updateConfig"), .operator),
  (("node_manager", "whiteNode"), .ownerParam),
  (("relayer_manager", "RemoveRelayer"), .ownerParam),
  (("relayer_manager", "approveRegisterRelayer"), .ownerParam),
  (("relayer_manager", "approveRemoveRelayer"), .ownerParam),
  (("relayer_manager", "registerRelayer"), .ownerParam),
  (("replenish", "replenishTx"), .none),
  (("side_chain_manager", "approveQuitSideChain"), .ownerParam),
  (("side_chain_manager", "approveRegisterSideChain"), .ownerParam),
  (("side_chain_manager", "approveUpdateSideChain"), .ownerParam),
  (("side_chain_manager", "quitSideChain"), .ownerParam),
  (("side_chain_manager", "registerAsset"), .ownerParam),
  (("side_chain_manager", "registerRedeem"), .none),
  (("side_chain_manager", "registerSideChain"), .ownerParam),
  (("side_chain_manager", "setBtcTxParam"), .none),
  (("side_chain_manager", "updateFee"), .ownerParam),
  (("side_chain_manager", "updateSideChain"), .ownerParam),
  (("signature_manager", "addSignature"), .ownerParam)
]

def guardOf (contract method : String) : Option Guard :=
  (guardTable.find? fun e => e.1 == (contract, method)).map (·.2)

/-! ### The consensus operator address -/

/-- One entry of `PeerPoolMap` as `GetCurConOperator` looks at it. -/
structure Peer where
  pubkey : Bytes          -- serialized public key
  consensus : Bool        -- Status == ConsensusStatus
deriving DecidableEq, Repr

def multiSigM (n : Nat) : Nat := n - (n - 1) / 3

def leU16 (n : Nat) : Bytes := [UInt8.ofNat (n % 256), UInt8.ofNat (n / 256 % 256)]

/-- `EncodeMultiPubKeyProgramInto` on already sorted keys. -/
def multiProgram (sorted : List Bytes) (m : Nat) : Bytes :=
  leU16 sorted.length ++ (sorted.flatMap varBytes) ++ leU16 m

section
variable (sortKeys : List Bytes → List Bytes)   -- keypair.SortPublicKeys on serialized keys
variable (addrOfCode : Bytes → Addr)            -- common.AddressFromVmCode (sha256 + ripemd160)

/-- `types.AddressFromBookkeepers`; the empty address stands for the swallowed error of `AddressFromMultiPubKeys`. -/
def addressFromBookkeepers (keys : List Bytes) : Addr :=
  match keys with
  | [k] => addrOfCode k
  | _ =>
    let n := keys.length
    if n > 1 && n ≤ 1024 then addrOfCode (multiProgram (sortKeys keys) (multiSigM n)) else emptyAddr

/-- `GetCurConOperator` over the peer pool in iteration order `peers`. -/
def curConOperator (peers : List Peer) : Addr :=
  addressFromBookkeepers sortKeys addrOfCode ((peers.filter (·.consensus)).map (·.pubkey))

end

/-- The counting loop of `CheckConsensusSigns`: (num, sum) over the peer pool in iteration order; `signed` tells
whether the address of a consensus peer's key is in the collected sign map. -/
def signCount (signed : Bytes → Bool) (peers : List Peer) : Nat × Nat :=
  peers.foldl (fun acc p => if p.consensus then (if signed p.pubkey then acc.1 + 1 else acc.1, acc.2 + 1) else acc) (0, 0)

def quorumReached (signed : Bytes → Bool) (peers : List Peer) : Bool :=
  let c := signCount signed peers
  decide (c.1 ≥ (2 * c.2 + 2) / 3)

end Poly.Model.Native
