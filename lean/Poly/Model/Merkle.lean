import Poly.Spec.RFC6962
/-
Executable model of /repo/merkle (merkle_tree.go, merkle_hasher.go, util.go, file_hash_store.go):
compact Merkle tree (size, frontier) with the carry loop of `appendHash`, the post-order hash store,
the proof generators reading the store by position, the three verifiers and the paired-level tree that
serves cross-state proofs. Core-only; the hash function `H` is a parameter.

Conventions: `uint32` quantities are `Nat` (the theorems and the correspondence are for tree sizes below
2^31, where no wrap-around occurs in `treeSize += 1`, `id * 2`, `offset += k*2 - 1`); a Go panic is the
error `Err.panic`; a loop either recurses on a decreasing quantity or takes a fuel argument, running out
of fuel is the error `Err.fuel` (shown unreachable by the theorems that compute the result).
`mintree_h` and the `rootHash` cache are not modelled: the first is never read (only logged), the second
is a transparent cache (reset by every mutation).
-/
namespace Poly.Model.Merkle
open Poly.Spec.RFC6962

inductive Err where
  | panic | fuel
  | wrongParams | notAvailable | noStore            -- proof generators
  | tooShortBuf                                     -- UnMarshal
  | tooShort | tooLong | rootMismatch               -- inclusion verifier
  | olderBigger | wrongLength | secondMismatch | firstMismatch   -- consistency verifier
  | eof                                             -- MerkleProve
  | tooBig | notFound                               -- MerkleLeafPath
deriving Repr, DecidableEq

def Err.name : Err → String
  | .panic => "panic" | .fuel => "fuel"
  | .wrongParams => "reject:wrong-params" | .notAvailable => "reject:not-available" | .noStore => "reject:no-store"
  | .tooShortBuf => "reject:too-short-buf"
  | .tooShort => "reject:too-short" | .tooLong => "reject:too-long" | .rootMismatch => "reject:root-mismatch"
  | .olderBigger => "reject:older-bigger" | .wrongLength => "reject:wrong-length"
  | .secondMismatch => "reject:second-root" | .firstMismatch => "reject:first-root"
  | .eof => "reject:eof" | .tooBig => "reject:too-big" | .notFound => "reject:not-found"

def zeroHash : Hash := List.replicate 32 0

/-! ### util.go -/

/-- `countBit`: number of one bits (the Go loop clears the lowest set bit until zero; same function). -/
def countBit : Nat → Nat
  | 0 => 0
  | n + 1 => (n + 1) % 2 + countBit ((n + 1) / 2)

/-- `countBit` exactly as the Go loop: `for num != 0 { num &= num - 1; count += 1 }` (fuel = `num`, each
step strictly decreases a non-zero `num`). `Proofs/MerkleBits.countBitLoop_eq` shows it equals `countBit`. -/
def countBitLoop : Nat → Nat → Nat
  | 0, _ => 0
  | f + 1, num => if num = 0 then 0 else 1 + countBitLoop f (num &&& (num - 1))

def countBitGo (num : Nat) : Nat := countBitLoop num num

/-- `highBit`: 1-based position of the highest one bit (`0` for `0`). -/
def highBit : Nat → Nat
  | 0 => 0
  | n + 1 => 1 + highBit ((n + 1) / 2)

/-- lowest set bit value `num & -num` (0 for 0). -/
def lowestBit : Nat → Nat
  | 0 => 0
  | n + 1 => if (n + 1) % 2 = 1 then 1 else 2 * lowestBit ((n + 1) / 2)

/-- `lowBit` = `highBit(num & -num)`. -/
def lowBit (n : Nat) : Nat := highBit (lowestBit n)

/-- `uint32(1 << (highBit(n-1) - 1))`: for `n ≤ 1` the shift count underflows to a huge `uint` and the
result is 0 (Go shifts ≥ width give 0). -/
def splitK (n : Nat) : Nat := if highBit (n - 1) = 0 then 0 else 2 ^ (highBit (n - 1) - 1)

section
variable (H : List UInt8 → List UInt8)

/-! ### merkle_hasher.go: fold of a frontier -/

/-- `accum = hc(hashes[i], accum)` going from the last hash to the first. `rev` is the rest of the frontier
in reverse order. -/
def foldUp (acc : Hash) (rev : List Hash) : Hash := rev.foldl (fun a h => hashChildren H h a) acc

/-- `_hash_fold`; the Go code indexes `hashes[l-1]` and panics on an empty slice. -/
def hashFold (hs : List Hash) : Except Err Hash :=
  match hs.reverse with
  | [] => .error .panic
  | a :: r => .ok (foldUp H a r)

/-- `_hash_full`: RFC split recursion returning the root and the frontier. -/
def hashFull : List Hash → Except Err (Hash × List Hash)
  | [] => .ok (hashEmpty H, [])
  | [x] => .ok (x, [x])
  | x :: y :: r =>
    if _hk : 0 < splitK (r.length + 2) ∧ splitK (r.length + 2) < r.length + 2 then
      match hashFull ((x :: y :: r).take (splitK (r.length + 2))) with
      | .error e => .error e
      | .ok (lroot, lhashes) =>
        if lhashes.length ≠ 1 then .error .panic      -- "left tree always full"
        else match hashFull ((x :: y :: r).drop (splitK (r.length + 2))) with
          | .error e => .error e
          | .ok (rroot, rhashes) =>
            let root := hashChildren H lroot rroot
            .ok (root, if splitK (r.length + 2) * 2 = r.length + 2 then [root] else lhashes ++ rhashes)
    else .error .fuel
termination_by l => l.length
decreasing_by
  · simp only [List.length_take, List.length_cons]; omega
  · simp only [List.length_drop, List.length_cons]; omega

/-- `HashFullTreeWithLeafHash` (the `debugCheck` branch is off in the code). -/
def hashFullTree (leaves : List Hash) : Except Err Hash :=
  match hashFull H leaves with
  | .error e => .error e
  | .ok (root, hashes) => if hashes.length ≠ countBit leaves.length then .error .panic else .ok root

/-! ### Hash store -/

/-- `memHashStore` (`isFile = false`) or `fileHashStore` (`isFile = true`): the list of stored hashes in
the order they were appended. For a file opened on a tree smaller than the file, `tail` is the stale file
content after the write position (readable by `GetHash`, overwritten by later appends). -/
structure HashStore where
  isFile : Bool
  hashes : List Hash
  tail : List Hash := []
deriving Repr, DecidableEq

def HashStore.put (st : HashStore) (new : List Hash) : HashStore :=
  { st with hashes := st.hashes ++ new, tail := st.tail.drop new.length }

/-- `GetHash(pos1 - 1)` where `pos1` is the 1-based position computed in `uint32`: position 0 wraps to
`0xFFFFFFFF`. Out of range: the memory store panics (slice index), the file store returns an error that
every caller ignores, leaving the zero hash. -/
def getHash1 (st : HashStore) (pos1 : Nat) : Except Err Hash :=
  if pos1 = 0 then (if st.isFile then .ok zeroHash else .error .panic)
  else match (st.hashes ++ st.tail)[pos1 - 1]? with
    | some h => .ok h
    | none => if st.isFile then .ok zeroHash else .error .panic

/-! ### Compact tree -/

structure CompactTree where
  size : Nat
  hashes : List Hash        -- frontier, largest subtree first (Go order)
deriving Repr, DecidableEq

def emptyTree : CompactTree := ⟨0, []⟩

/-- `_update`: panics unless `len(hashes) = countBit(tree_size)`. -/
def newTree (size : Nat) (hashes : List Hash) : Except Err CompactTree :=
  if hashes.length ≠ countBit size then .error .panic else .ok ⟨size, hashes⟩

/-- `Root()`. -/
def root (t : CompactTree) : Except Err Hash :=
  if t.hashes.length ≠ 0 then hashFold H t.hashes else .ok (hashEmpty H)

/-- The carry loop of `appendHash` on the reversed frontier: `for s := treeSize; s%2 == 1; s >>= 1`.
Returns the remaining reversed frontier, the new top node and the stored hashes. `hashes[size-1]` on an
exhausted frontier is a Go panic. -/
def carry : Nat → List Hash → Hash → List Hash → Except Err (List Hash × Hash × List Hash)
  | s, rev, leaf, st =>
    if _h : s % 2 = 1 then
      match rev with
      | [] => .error .panic
      | top :: rest => carry (s / 2) rest (hashChildren H top leaf) (st ++ [hashChildren H top leaf])
    else .ok (rev, leaf, st)
termination_by s => s
decreasing_by omega

/-- `appendHash`: new tree, hashes handed to the store (in order), returned "audit path" (the old frontier
reversed). -/
def appendHash (t : CompactTree) (leaf : Hash) : Except Err (CompactTree × List Hash × List Hash) :=
  match carry H t.size t.hashes.reverse leaf [leaf] with
  | .error e => .error e
  | .ok (rev, top, st) => .ok (⟨t.size + 1, rev.reverse ++ [top]⟩, st, t.hashes.reverse)

/-- `Append(leafv)`. -/
def appendLeaf (t : CompactTree) (leafv : List UInt8) : Except Err (CompactTree × List Hash × List Hash) :=
  appendHash H t (hashLeaf H leafv)

/-- Tree plus optional store (`hashStore == nil` ↦ `none`). -/
structure State where
  tree : CompactTree
  store : Option HashStore
deriving Repr, DecidableEq

def State.append (s : State) (leafv : List UInt8) : Except Err (State × List Hash) :=
  match appendLeaf H s.tree leafv with
  | .error e => .error e
  | .ok (t, st, audit) =>
    .ok (⟨t, s.store.map fun hs => hs.put st⟩, audit)

def State.appendAll (s : State) : List (List UInt8) → Except Err State
  | [] => .ok s
  | d :: ds => match s.append H d with
    | .error e => .error e
    | .ok (s', _) => State.appendAll s' ds

/-- `GetRootWithNewLeaf`: fold of the frontier extended by the new leaf hash. -/
def getRootWithNewLeaf (t : CompactTree) (newLeaf : List UInt8) : Except Err Hash :=
  hashFold H (t.hashes ++ [hashLeaf H newLeaf])

/-- `GetRootWithNewLeaves`: clone without store, append all, `Root()`. -/
def getRootWithNewLeaves (t : CompactTree) (newLeaves : List (List UInt8)) : Except Err Hash :=
  match State.appendAll H ⟨t, none⟩ newLeaves with
  | .error e => .error e
  | .ok s => root H s.tree

/-! ### Marshal / UnMarshal -/

def be32 (n : Nat) : List UInt8 :=
  [(n / 2 ^ 24 % 256).toUInt8, (n / 2 ^ 16 % 256).toUInt8, (n / 2 ^ 8 % 256).toUInt8, (n % 256).toUInt8]

def marshal (t : CompactTree) : List UInt8 := be32 t.size ++ t.hashes.flatten

/-- Copy `n` 32-byte hashes out of `buf` (`copy(hashes[i][:], buf[4+i*32:])`). -/
def takeHashes : Nat → List UInt8 → List Hash
  | 0, _ => []
  | n + 1, buf => buf.take 32 :: takeHashes n (buf.drop 32)

/-- `UnMarshal`: `buf[0:4]` panics on a short buffer; trailing bytes are ignored. -/
def unmarshal (buf : List UInt8) : Except Err CompactTree :=
  match buf with
  | b0 :: b1 :: b2 :: b3 :: rest =>
    let size := b0.toNat * 2 ^ 24 + b1.toNat * 2 ^ 16 + b2.toNat * 2 ^ 8 + b3.toNat
    let n := countBit size
    if buf.length < 4 + n * 32 then .error .tooShortBuf
    else newTree size (takeHashes n rest)
  | _ => .error .panic

/-! ### Store positions (`getSubTreeSize`, `getSubTreePos`) -/

/-- Sizes `2^(j+1) - 1` of the stored perfect subtrees for the set bits `j` of `n`, lowest bit first. -/
def subTreeSizesLow : Nat → Nat → List Nat
  | 0, _ => []
  | n + 1, id =>
    if (n + 1) % 2 = 1 then (2 * id - 1) :: subTreeSizesLow ((n + 1) / 2) (2 * id)
    else subTreeSizesLow ((n + 1) / 2) (2 * id)

/-- `getSubTreeSize`: largest subtree first. -/
def getSubTreeSize (n : Nat) : List Nat := (subTreeSizesLow n 1).reverse

def prefixSums : Nat → List Nat → List Nat
  | _, [] => []
  | acc, x :: r => (acc + x) :: prefixSums (acc + x) r

/-- `getSubTreePos`: 1-based store position of the root of every stored subtree. -/
def getSubTreePos (n : Nat) : List Nat := prefixSums 0 (getSubTreeSize n)

/-- `getStoredHashNum`. -/
def storedHashNum (n : Nat) : Nat := (getSubTreeSize n).foldl (· + ·) 0

/-- `NewFileHashStore(name, tree_size)` on an existing file holding `fileHashes`: `checkConsistence`, then
seek to the expected size (later appends overwrite what follows). -/
def reopenFile (fileHashes : List Hash) (treeSize : Nat) : Option HashStore :=
  if fileHashes.length < storedHashNum treeSize then none
  else some ⟨true, fileHashes.take (storedHashNum treeSize), fileHashes.drop (storedHashNum treeSize)⟩

/-- How the proof generators see the store: `GetHash(pos1 - 1)` for a 1-based position. The generators are
written against this reader so that the compiled driver can back it with an array (`Model/MerkleArray`,
proved equal to the list-backed `getHash1`). -/
abbrev Reader := Nat → Except Err Hash

/-- Root of `cnt` leaves whose stored hashes start after `base - 1` store entries: `pos[p] += base - 1`
(computed in `uint32` as `pos[p] + offset + k*2 - 1`, which is 0 only in the `m = 0` quirk of `subproof`),
then `GetHash(pos[p] - 1)` and `_hash_fold`. -/
def readAll (rd : Reader) (base : Nat) : List Nat → Except Err (List Hash)
  | [] => .ok []
  | p :: ps =>
    match rd (p + base - 1) with
    | .error e => .error e
    | .ok h => match readAll rd base ps with
      | .error e => .error e
      | .ok hs => .ok (h :: hs)

def rangeRoot (rd : Reader) (base cnt : Nat) : Except Err Hash :=
  match readAll rd base (getSubTreePos cnt) with
  | .error e => .error e
  | .ok hs => hashFold H hs

/-- `merkleRoot(n)`: root of `D[0:n]` from the store. -/
def merkleRoot (rd : Reader) (n : Nat) : Except Err Hash := rangeRoot H rd 1 n

/-! ### Proof generators -/

/-- Loop of `InclusionProof` / `MerkleInclusionLeafPath`: collects `(pos byte, hash)` top-down. -/
def inclLoop (rd : Reader) : Nat → Nat → Nat → Nat → Except Err (List (UInt8 × Hash))
  | 0, _, _, _ => .error .fuel
  | f + 1, m, n, offset =>
    if n = 1 then .ok []
    else
      let k := splitK n
      if m < k then
        match rangeRoot H rd (offset + k * 2) (n - k) with
        | .error e => .error e
        | .ok h => match inclLoop rd f m k offset with
          | .error e => .error e
          | .ok r => .ok ((1, h) :: r)
      else
        match rd (offset + (k * 2 - 1)) with
        | .error e => .error e
        | .ok h => match inclLoop rd f (m - k) (n - k) (offset + (k * 2 - 1)) with
          | .error e => .error e
          | .ok r => .ok ((0, h) :: r)

/-- `InclusionProof(m, n)` over a tree of `size` leaves and the reader of its store (`none`: no store). -/
def inclusionProofR (size : Nat) (rd : Option Reader) (m n : Nat) : Except Err (List Hash) :=
  if m ≥ n then .error .wrongParams
  else if size < n then .error .notAvailable
  else match rd with
    | none => .error .noStore
    | some rd => match inclLoop H rd n m n 0 with
      | .error e => .error e
      | .ok r => .ok (r.map (·.2)).reverse

/-- `InclusionProof(m, n)`. -/
def inclusionProof (s : State) (m n : Nat) : Except Err (List Hash) :=
  inclusionProofR H s.tree.size (s.store.map getHash1) m n

/-! #### Varuint / varbytes of `common.ZeroCopySink` / `ZeroCopySource` -/

def leBytes : Nat → Nat → List UInt8
  | 0, _ => []
  | k + 1, n => (n % 256).toUInt8 :: leBytes k (n / 256)

def varUint (n : Nat) : List UInt8 :=
  if n < 0xFD then [n.toUInt8]
  else if n ≤ 0xFFFF then 0xFD :: leBytes 2 n
  else if n ≤ 0xFFFFFFFF then 0xFE :: leBytes 4 n
  else 0xFF :: leBytes 8 n

def varBytes (d : List UInt8) : List UInt8 := varUint d.length ++ d

def leNat : List UInt8 → Nat
  | [] => 0
  | b :: r => b.toNat + 256 * leNat r

def nextLE (k : Nat) (bs : List UInt8) : Option (Nat × List UInt8) :=
  if bs.length < k then none else some (leNat (bs.take k), bs.drop k)

/-- `NextVarUint` (non-canonical encodings are accepted by the code). -/
def nextVarUint : List UInt8 → Option (Nat × List UInt8)
  | [] => none
  | fb :: r =>
    if fb = 0xFD then nextLE 2 r
    else if fb = 0xFE then nextLE 4 r
    else if fb = 0xFF then nextLE 8 r
    else some (fb.toNat, r)

/-- `NextVarBytes`. -/
def nextVarBytes (bs : List UInt8) : Option (List UInt8 × List UInt8) :=
  match nextVarUint bs with
  | none => none
  | some (cnt, r) => if r.length < cnt then none else some (r.take cnt, r.drop cnt)

def encodePairs : List (UInt8 × Hash) → List UInt8
  | [] => []
  | (f, h) :: r => f :: (h ++ encodePairs r)

/-- `MerkleInclusionLeafPath(data, m, n)`: `varbytes(data)` then `(pos, hash)` pairs lowest first. -/
def merkleInclusionLeafPathR (size : Nat) (rd : Option Reader) (data : List UInt8) (m n : Nat) :
    Except Err (List UInt8) :=
  if m ≥ n then .error .wrongParams
  else if size < n then .error .notAvailable
  else match rd with
    | none => .error .noStore
    | some rd => match inclLoop H rd n m n 0 with
      | .error e => .error e
      | .ok r => .ok (varBytes data ++ encodePairs r.reverse)

def merkleInclusionLeafPath (s : State) (data : List UInt8) (m n : Nat) : Except Err (List UInt8) :=
  merkleInclusionLeafPathR H s.tree.size (s.store.map getHash1) data m n

/-- Loop of `subproof`: hashes top-down, final `(n, offset, b)`. -/
def consLoop (rd : Reader) : Nat → Nat → Nat → Nat → Bool → Except Err (List Hash × Nat × Nat × Bool)
  | 0, _, _, _, _ => .error .fuel
  | f + 1, m, n, offset, b =>
    if m < n then
      let k := splitK n
      if m ≤ k then
        match rangeRoot H rd (offset + k * 2) (n - k) with
        | .error e => .error e
        | .ok h => match consLoop rd f m k offset b with
          | .error e => .error e
          | .ok (r, x) => .ok (h :: r, x)
      else
        match rd (offset + (k * 2 - 1)) with
        | .error e => .error e
        | .ok h => match consLoop rd f (m - k) (n - k) (offset + (k * 2 - 1)) false with
          | .error e => .error e
          | .ok (r, x) => .ok (h :: r, x)
    else .ok ([], n, offset, b)

/-- `subproof(m, n, b)`. -/
def subproofGen (rd : Reader) (m n : Nat) (b : Bool) : Except Err (List Hash) :=
  match consLoop H rd (n + 1) m n 0 b with
  | .error e => .error e
  | .ok (hs, n', offset, b') =>
    if b' = false then
      match getSubTreePos n' with
      | [p] => match rd (p + offset) with
        | .error e => .error e
        | .ok h => .ok (hs ++ [h]).reverse
      | _ => .error .panic            -- "assert error"
    else .ok hs.reverse

/-- `ConsistencyProof(m, n)`; `none` is the Go `nil` result for bad parameters. -/
def consistencyProofR (size : Nat) (rd : Option Reader) (m n : Nat) : Except Err (Option (List Hash)) :=
  match rd with
  | none => .ok none
  | some rd =>
    if m > n ∨ size < n then .ok none
    else match subproofGen H rd m n true with
      | .error e => .error e
      | .ok p => .ok (some p)

def consistencyProof (s : State) (m n : Nat) : Except Err (Option (List Hash)) :=
  consistencyProofR H s.tree.size (s.store.map getHash1) m n

/-! ### Verifiers (C07) -/

/-- `calculate_root_hash_from_audit_path` with `last = tree_size - 1`; the proof is consumed from the front. -/
def calcRoot : Hash → Nat → Nat → List Hash → Except Err Hash
  | c, i, last, p =>
    if _h : last = 0 then (if p.isEmpty then .ok c else .error .tooLong)
    else match p with
      | [] => .error .tooShort
      | s :: rest =>
        if i % 2 = 1 then calcRoot (hashChildren H s c) (i / 2) (last / 2) rest
        else if i < last then calcRoot (hashChildren H c s) (i / 2) (last / 2) rest
        else calcRoot c (i / 2) (last / 2) (s :: rest)
termination_by _ _ last _ => last
decreasing_by all_goals omega

/-- `VerifyLeafHashInclusion`. -/
def verifyLeafHashInclusion (leafHash : Hash) (leafIndex : Nat) (proof : List Hash) (rootHash : Hash)
    (treeSize : Nat) : Except Err Unit :=
  if treeSize ≤ leafIndex then .error .wrongParams
  else match calcRoot H leafHash leafIndex (treeSize - 1) proof with
    | .error e => .error e
    | .ok r => if r ≠ rootHash then .error .rootMismatch else .ok ()

/-- `VerifyLeafInclusion`. -/
def verifyLeafInclusion (leaf : List UInt8) (leafIndex : Nat) (proof : List Hash) (rootHash : Hash)
    (treeSize : Nat) : Except Err Unit :=
  verifyLeafHashInclusion H (hashLeaf H leaf) leafIndex proof rootHash treeSize

/-- `audit_path_length`. -/
def auditPathLength : Nat → Nat → Nat
  | i, last => if h : last = 0 then 0
    else (if i % 2 = 1 ∨ i < last then 1 else 0) + auditPathLength (i / 2) (last / 2)
termination_by _ last => last
decreasing_by omega

/-- `for node%2 == 1 { node /= 2; last_node /= 2 }`. -/
def stripRight : Nat → Nat → Nat × Nat
  | node, last => if _h : node % 2 = 1 then stripRight (node / 2) (last / 2) else (node, last)
termination_by node => node
decreasing_by omega

/-- `for node != 0 {…}`: returns `(new_hash, old_hash, last_node, remaining proof)`. -/
def consWalk : Nat → Nat → Hash → Hash → List Hash → Except Err (Hash × Hash × Nat × List Hash)
  | node, last, newH, oldH, p =>
    if _h : node = 0 then .ok (newH, oldH, last, p)
    else if node % 2 = 1 then
      match p with
      | [] => .error .wrongLength
      | s :: rest => consWalk (node / 2) (last / 2) (hashChildren H s newH) (hashChildren H s oldH) rest
    else if node < last then
      match p with
      | [] => .error .wrongLength
      | s :: rest => consWalk (node / 2) (last / 2) (hashChildren H newH s) oldH rest
    else consWalk (node / 2) (last / 2) newH oldH p
termination_by node => node
decreasing_by all_goals omega

/-- `for last_node != 0 {…}`. -/
def consTail : Nat → Hash → List Hash → Except Err (Hash × List Hash)
  | last, newH, p =>
    if _h : last = 0 then .ok (newH, p)
    else match p with
      | [] => .error .wrongLength
      | s :: rest => consTail (last / 2) (hashChildren H newH s) rest
termination_by last => last
decreasing_by omega

/-- `VerifyConsistency`. -/
def verifyConsistency (oldSize newSize : Nat) (oldRoot newRoot : Hash) (proof : List Hash) : Except Err Unit :=
  if oldSize > newSize then .error .olderBigger
  else if oldRoot = newRoot then .ok ()
  else if oldSize = 0 then .ok ()
  else
    let (node, last) := stripRight (oldSize - 1) (newSize - 1)
    match proof with
    | [] => .error .wrongLength
    | p0 :: rest0 =>
      let start : Hash × List Hash := if node ≠ 0 then (p0, rest0) else (oldRoot, proof)
      match consWalk H node last start.1 start.1 start.2 with
      | .error e => .error e
      | .ok (newH, oldH, last', p1) =>
        match consTail H last' newH p1 with
        | .error e => .error e
        | .ok (newH', p2) =>
          if newH' ≠ newRoot then .error .secondMismatch
          else if oldH ≠ oldRoot then .error .firstMismatch
          else if ¬ p2.isEmpty then .error .tooLong
          else .ok ()

/-- The `(flag, hash)` pairs of a path: `size = remaining / 33` pairs are read, shorter trailing bytes are ignored. -/
def readPairs : Nat → List UInt8 → List (UInt8 × Hash)
  | 0, _ => []
  | _ + 1, [] => []
  | n + 1, f :: r => (f, r.take 32) :: readPairs n (r.drop 32)

/-- `if f == LEFT { hash = hc(v, hash) } else { hash = hc(hash, v) }`. -/
def provePath (h : Hash) : List (UInt8 × Hash) → Hash
  | [] => h
  | (f, v) :: r => provePath (if f = 0 then hashChildren H v h else hashChildren H h v) r

/-- `MerkleProve(path, root)`. -/
def merkleProve (path root : List UInt8) : Except Err (List UInt8) :=
  match nextVarBytes path with
  | none => .error .eof
  | some (value, rest) =>
    let h := provePath H (hashLeaf H value) (readPairs (rest.length / 33) rest)
    if h ≠ root then .error .rootMismatch else .ok value

/-! ### Paired-level tree (`MerkleHashes`, `MerkleLeafPath`) — C08 -/

/-- `depth(n) = int(ceil(log2(float64 n)))` for `n ≥ 1` (bit length of `n - 1`). -/
def depth (n : Nat) : Nat := highBit (n - 1)

/-- `MerkleHashes(preLeaves, depth)`: `levels[depth] = preLeaves`, every level above pairs adjacent nodes
and promotes an odd last node; index 0 is the top level. -/
def merkleHashes : List Hash → Nat → List (List Hash)
  | l, 0 => [l]
  | l, d + 1 => merkleHashes (pairUp H l) d ++ [l]

/-- `getIndex`: first position of `leaf`. -/
def getIndex (leaf : Hash) : List Hash → Option Nat
  | [] => none
  | h :: r => if h = leaf then some 0 else (getIndex leaf r).map (· + 1)

def MAX_SIZE : Nat := 1024 * 1024

/-- The loop `for i := d; i > 0; i--` over `merkleTree[i]`. -/
def leafPathLoop (levels : List (List Hash)) : Nat → Nat → Except Err (List UInt8)
  | 0, _ => .ok []
  | i + 1, index =>
    match levels[i + 1]? with
    | none => .error .panic
    | some sub =>
      if index = sub.length - 1 ∧ sub.length % 2 ≠ 0 then leafPathLoop levels i (index / 2)
      else if index % 2 ≠ 0 then
        match sub[index - 1]? with
        | none => .error .panic
        | some h => match leafPathLoop levels i (index / 2) with
          | .error e => .error e
          | .ok r => .ok (0 :: (h ++ r))
      else
        match sub[index + 1]? with
        | none => .error .panic
        | some h => match leafPathLoop levels i (index / 2) with
          | .error e => .error e
          | .ok r => .ok (1 :: (h ++ r))

/-- `MerkleLeafPath(data, hashes)`. -/
def merkleLeafPath (data : List UInt8) (hashes : List Hash) : Except Err (List UInt8) :=
  if hashes.length * 33 + data.length + 8 > MAX_SIZE then .error .tooBig
  else match getIndex (hashLeaf H data) hashes with
    | none => .error .notFound
    | some index =>
      let d := depth hashes.length
      match leafPathLoop (merkleHashes H hashes d) d index with
      | .error e => .error e
      | .ok r => .ok (varBytes data ++ r)

end
end Poly.Model.Merkle
