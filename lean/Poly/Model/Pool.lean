/-
Model of `txnpool/common/transaction_pool.go` (TXPool) — C37, sequential part.

The Go pool is `map[Uint256]*TXEntry` under one RWMutex; every method holds the lock for its whole body, so the
sequential behaviour of each method is what is modelled here. The map is an association list in insertion order
(keys unique: theorem, not subtype). Wherever the Go code ranges over the map the model takes the iteration
order as an explicit argument (`order`), and theorems quantify over every permutation of the pool.

Hashes are an arbitrary type with decidable equality (`String` ids in the driver).
-/
namespace Poly.Model.Pool

/-- One validator result (`TXAttr`): height at which it was verified, validator kind (`vt.Stateful = 1`), error code. -/
structure Attr where
  height : Nat
  kind : Nat
  err : Nat
deriving DecidableEq, Repr

def Attr.stateful (a : Attr) : Bool := a.kind == 1

/-- `TXEntry`: the transaction (identified by its hash) and the validator results. -/
structure Entry (H : Type) where
  hash : H
  attrs : List Attr
deriving DecidableEq, Repr

abbrev Pool (H : Type) := List (Entry H)

section
variable {H : Type} [DecidableEq H]

def keys (p : Pool H) : List H := p.map (·.hash)

def find? (p : Pool H) (h : H) : Option (Entry H) := List.find? (fun e => e.hash == h) p

def has (p : Pool H) (h : H) : Bool := p.any (fun e => e.hash == h)

/-- `AddTxList`: false (and no change) when the hash is present, else insert. -/
def add (p : Pool H) (e : Entry H) : Pool H × Bool :=
  if has p e.hash then (p, false) else (p ++ [e], true)

/-- `delete(tp.txList, h)`. -/
def erase (p : Pool H) (h : H) : Pool H := p.filter (fun e => !(e.hash == h))

/-- `DelTxList`. -/
def del (p : Pool H) (h : H) : Pool H × Bool :=
  if has p h then (erase p h, true) else (p, false)

/-- `CleanTransactionList`: the loop `for tx in txs { if present { delete } }`. -/
def clean (p : Pool H) (hs : List H) : Pool H :=
  hs.foldl (fun q h => if has q h then erase q h else q) p

/-- `compareTxHeight`: false iff some stateful result was obtained below `height`. -/
def fresh (height : Nat) (e : Entry H) : Bool :=
  e.attrs.all (fun a => !(a.stateful && decide (a.height < height)))

/-- The `count` computed at the top of `GetTxPool` (`maxTx` = `config.DefConfig.Consensus.MaxTxInBlock`). -/
def getCount (p : Pool H) (byCount : Bool) (maxTx : Nat) : Nat :=
  -- `count <= 0` clears `byCount`; `len < count || !byCount` selects the whole pool
  if maxTx = 0 ∨ byCount = false ∨ p.length < maxTx then p.length else maxTx

/-- The selection loop of `GetTxPool` over the entries in iteration order; `num` = entries taken so far.
Returns (txList, oldTxList). -/
def scan (height count : Nat) : List (Entry H) → Nat → List (Entry H) × List (Entry H)
  | [], _ => ([], [])
  | e :: rest, num =>
    if fresh height e = false then
      match scan height count rest num with
      | (t, o) => (t, e :: o)
    else if num + 1 ≥ count then ([e], [])
    else
      match scan height count rest (num + 1) with
      | (t, o) => (e :: t, o)

/-- `GetTxPool byCount height` with the map iterated in `order` (a permutation of the pool). -/
def getTxPool (p : Pool H) (order : List (Entry H)) (byCount : Bool) (height maxTx : Nat) :
    List (Entry H) × List (Entry H) :=
  scan height (getCount p byCount maxTx) order 0

/-- Result of `GetUnverifiedTxs`. `ver` carries (hash, height, err) of the first stateful result. -/
structure CheckBlk (H : Type) where
  ver : List (H × Nat × Nat)
  unv : List H
  old : List H
deriving DecidableEq, Repr

def unvStep (height : Nat) (st : Pool H × CheckBlk H) (h : H) : Pool H × CheckBlk H :=
  match find? st.1 h with
  | none => (st.1, { st.2 with unv := st.2.unv ++ [h] })
  | some e =>
    if !fresh height e then (erase st.1 h, { st.2 with old := st.2.old ++ [h] })
    else
      match e.attrs.find? (·.stateful) with
      | some a => (st.1, { st.2 with ver := st.2.ver ++ [(h, a.height, a.err)] })
      | none => st      -- no stateful result recorded: the Go loop appends nothing

/-- `GetUnverifiedTxs txs height`: classifies the block's transactions, deleting the stale ones. -/
def getUnverified (p : Pool H) (txs : List H) (height : Nat) : Pool H × CheckBlk H :=
  txs.foldl (unvStep height) (p, ⟨[], [], []⟩)

/-- specification of `GetUnverifiedTxs` for one hash, against the pool as it was when the call started -/
def classify (height : Nat) (p : Pool H) (t : H) (r : CheckBlk H) : CheckBlk H :=
  match find? p t with
  | none => { r with unv := r.unv ++ [t] }
  | some e =>
    if !fresh height e then { r with old := r.old ++ [t] }
    else match e.attrs.find? (fun a : Attr => a.stateful) with
      | some a => { r with ver := r.ver ++ [(t, a.height, a.err)] }
      | none => r

/-- `Remain`: everything is returned (in iteration order) and the pool is emptied. -/
def remain (_p : Pool H) (order : List (Entry H)) : Pool H × List H := ([], keys order)

/-! ### Operation sequences -/

inductive Op (H : Type) where
  | add (e : Entry H)
  | del (h : H)
  | clean (hs : List H)
  | get (order : List (Entry H)) (byCount : Bool) (height maxTx : Nat)
  | unverified (txs : List H) (height : Nat)
  | remain

/-- State change of one operation (`GetTxPool` only reads). -/
def step (p : Pool H) : Op H → Pool H
  | .add e => (add p e).1
  | .del h => (del p h).1
  | .clean hs => clean p hs
  | .get _ _ _ _ => p
  | .unverified txs height => (getUnverified p txs height).1
  | .remain => []

def run (ops : List (Op H)) : Pool H := ops.foldl step []

end

/-! ### Worker level: how validator answers become a pool entry (txnpool_worker.go handleRsp / putTxPool,
verifyStateful) and how `TXPoolServer.getTxPool` hands entries to consensus -/

section
variable {H : Type} [DecidableEq H]

/-- pool, transactions being verified with the results collected so far, and the height last set by consensus -/
structure WState (H : Type) where
  pool : Pool H
  pend : List (H × List Attr)
  height : Nat

def hasKind (attrs : List Attr) (k : Nat) : Bool := attrs.any (fun a => a.kind == k)

/-- `handleRsp` for one pending transaction and an answer of validator `k` (0 stateless, 1 stateful) at height `h`:
a stateful answer below the server height is sent back to the validator; otherwise the result is recorded once. -/
def recordAnswer (srvHeight k h : Nat) (attrs : List Attr) : List Attr :=
  if k == 1 && decide (h < srvHeight) then attrs
  else if hasKind attrs k then attrs
  else attrs ++ [⟨h, k, 0⟩]

/-- the validator of kind `k` answers every request it holds (every pending transaction without a result of that
kind); transactions with both results go to the pool (`putTxPool`) -/
def WState.answer (s : WState H) (k h : Nat) : WState H :=
  let upd := s.pend.map (fun (p : H × List Attr) => (p.1, recordAnswer s.height k h p.2))
  let done := upd.filter (fun p => hasKind p.2 0 && hasKind p.2 1)
  let rest := upd.filter (fun p => !(hasKind p.2 0 && hasKind p.2 1))
  { s with pool := done.foldl (fun q p => (add q ⟨p.1, p.2⟩).1) s.pool, pend := rest }

/-- `TXPoolServer.getTxPool byCount height`: sets the height, hands out the eligible entries, removes the stale ones
from the pool and queues them for stateful re-verification (`verifyStateful` marks the stateless part as done). -/
def WState.getTx (s : WState H) (order : List (Entry H)) (byCount : Bool) (height maxTx : Nat) :
    WState H × List (Entry H) :=
  let r := getTxPool s.pool order byCount height maxTx
  let pool' := r.2.foldl (fun q e => erase q e.hash) s.pool
  ({ pool := pool', pend := s.pend ++ r.2.map (fun e => (e.hash, [⟨0, 0, 0⟩])), height := height }, r.1)

end

/-! ### Server level: admission bookkeeping of txnpool/proc, by counts

`TxActor.handleTransaction` (one actor, one message at a time) reads the pending count, then the pool count, and
admits when `pending + pool < C`; it then takes one of `L` slots (blocking) and hands the transaction to a worker;
the worker adds it to the pool when both validators have answered (`putTxPool`: `addTxList`, then
`removePendingTx`, which gives a slot back when fewer than `L` transactions are pending).
`C = MAX_CAPACITY`, `L = MAX_LIMITATION`. The two reads of the capacity test are separate steps. -/

structure Srv where
  pool : Nat        -- entries in the TXPool
  flying : Nat      -- admitted, pending, not yet added to the pool
  landed : Nat      -- added to the pool, still in allPendingTxs (between addTxList and removePendingTx)
  other : Nat       -- pending transactions that took no slot (re-verification, block verification)
  limbo : Nat       -- taken out of the pool for re-verification, not yet in allPendingTxs
  slots : Nat       -- tokens in the `slots` channel
  snap : Option Nat -- the actor has read the pending count and not yet the pool count
  passed : Bool     -- the actor has passed the capacity test and is waiting for / about to take a slot
deriving DecidableEq, Repr

def Srv.init (L : Nat) : Srv := ⟨0, 0, 0, 0, 0, L, none, false⟩

def Srv.pending (s : Srv) : Nat := s.flying + s.landed + s.other

/-- the slot refill of `removePendingTx`, evaluated after the delete -/
def Srv.refill (L : Nat) (s : Srv) : Srv :=
  if s.pending < L then { s with slots := min (s.slots + 1) L } else s

/-- Steps of the admission fragment: what `handleTransaction` + workers do, plus block clean-up without
re-verification (`disablePreExec = true`). -/
inductive AStep (C L : Nat) : Srv → Srv → Prop
  /-- `getPendingListSize()` -/
  | snapshot (s : Srv) : s.passed = false → s.snap = none → AStep C L s { s with snap := some s.pending }
  /-- `+ getTransactionCount() >= MAX_CAPACITY` is false: admitted -/
  | checkOk (s : Srv) (q : Nat) : s.snap = some q → q + s.pool < C → AStep C L s { s with snap := none, passed := true }
  /-- pool full: refused -/
  | checkFull (s : Srv) (q : Nat) : s.snap = some q → ¬ q + s.pool < C → AStep C L s { s with snap := none }
  /-- `<-slots` then `assignTxToWorker` (new hash) -/
  | take (s : Srv) : s.passed = true → 0 < s.slots →
      AStep C L s { s with passed := false, slots := s.slots - 1, flying := s.flying + 1 }
  /-- `<-slots` then `assignTxToWorker` refuses a hash that is already pending: the slot is consumed -/
  | takeDup (s : Srv) : s.passed = true → 0 < s.slots →
      AStep C L s { s with passed := false, slots := s.slots - 1 }
  /-- worker: `addTxList` succeeded -/
  | land (s : Srv) : 0 < s.flying →
      AStep C L s { s with flying := s.flying - 1, landed := s.landed + 1, pool := s.pool + 1 }
  /-- worker: `removePendingTx` after the add -/
  | release (s : Srv) : 0 < s.landed → AStep C L s (Srv.refill L { s with landed := s.landed - 1 })
  /-- verification failed / duplicate in pool / retries exhausted: `removePendingTx` without an add -/
  | fail (s : Srv) : 0 < s.flying → AStep C L s (Srv.refill L { s with flying := s.flying - 1 })
  /-- `CleanTransactionList` removes `k` included entries -/
  | clean (s : Srv) (k : Nat) : k ≤ s.pool → AStep C L s { s with pool := s.pool - k }

/-- Re-verification traffic: `cleanTransactionList` with pre-execution enabled calls `Remain()` (the whole pool is
removed at once) and then `reVerifyStateful` for each transaction (it enters `allPendingTxs` one by one);
`getTxPool` does the same for each stale entry it met. Completion adds the transaction back. -/
inductive RStep (C L : Nat) : Srv → Srv → Prop
  | adm (s t : Srv) : AStep C L s t → RStep C L s t
  /-- `Remain()` -/
  | remain (s : Srv) : RStep C L s { s with limbo := s.limbo + s.pool, pool := 0 }
  /-- `delTransaction` of one stale entry -/
  | stale (s : Srv) : 0 < s.pool → RStep C L s { s with pool := s.pool - 1, limbo := s.limbo + 1 }
  /-- `reVerifyStateful`: `setPendingTx` -/
  | requeue (s : Srv) : 0 < s.limbo → RStep C L s { s with limbo := s.limbo - 1, other := s.other + 1 }
  /-- a re-verified transaction is added back and leaves the pending list -/
  | back (s : Srv) : 0 < s.other →
      RStep C L s (Srv.refill L { s with other := s.other - 1, pool := s.pool + 1 })

/-- Full step relation: additionally `verifyBlock` sends the transactions of a proposed block that are not in the
pool to the workers (no capacity test, no slot); they are added when verified (as `back`). -/
inductive FStep (C L : Nat) : Srv → Srv → Prop
  | re (s t : Srv) : RStep C L s t → FStep C L s t
  | block (s : Srv) (k : Nat) : FStep C L s { s with other := s.other + k }

inductive Reach {σ : Type} (r : σ → σ → Prop) (i : σ) : σ → Prop
  | init : Reach r i i
  | step (s t : σ) : Reach r i s → r s t → Reach r i t

/-! ### Executable steps and the macro-steps observed on the real server (quiescent points) -/

def doSnapshot (s : Srv) : Option Srv :=
  if s.passed = false ∧ s.snap = none then some { s with snap := some s.pending } else none

/-- second half of the capacity test (admit or refuse) -/
def doCheck (C : Nat) (s : Srv) : Option Srv :=
  match s.snap with
  | some q => if q + s.pool < C then some { s with snap := none, passed := true } else some { s with snap := none }
  | none => none

def doTake (s : Srv) : Option Srv :=
  if s.passed = true ∧ 0 < s.slots then some { s with passed := false, slots := s.slots - 1, flying := s.flying + 1 }
  else none

def doLand (s : Srv) : Option Srv :=
  if 0 < s.flying then some { s with flying := s.flying - 1, landed := s.landed + 1, pool := s.pool + 1 } else none

def doRelease (L : Nat) (s : Srv) : Option Srv :=
  if 0 < s.landed then some (Srv.refill L { s with landed := s.landed - 1 }) else none

def doRemain (s : Srv) : Option Srv := some { s with limbo := s.limbo + s.pool, pool := 0 }

def doRequeue (s : Srv) : Option Srv :=
  if 0 < s.limbo then some { s with limbo := s.limbo - 1, other := s.other + 1 } else none

def doBack (L : Nat) (s : Srv) : Option Srv :=
  if 0 < s.other then some (Srv.refill L { s with other := s.other - 1, pool := s.pool + 1 }) else none

def doBlock (k : Nat) (s : Srv) : Option Srv := some { s with other := s.other + k }

/-- take the step when its guard holds, else stay -/
def orStay (f : Srv → Option Srv) (s : Srv) : Srv := (f s).getD s

def iter (n : Nat) (f : Srv → Srv) (s : Srv) : Srv :=
  match n with
  | 0 => s
  | n + 1 => iter n f (f s)

/-- one `TxReq` handled by the actor: the two reads of the capacity test, then the slot (the actor stays blocked
when none is free) -/
def submitOne (C : Nat) (s : Srv) : Srv := orStay doTake (orStay (doCheck C) (orStay doSnapshot s))

/-- `k` submissions while the validators hold their answers -/
def submitHeld (C k : Nat) (s : Srv) : Srv := iter k (submitOne C) s

/-- one in-flight transaction completes (`addTxList`, `removePendingTx`); a blocked actor then takes the freed slot -/
def completeOne (L : Nat) (s : Srv) : Srv := orStay doTake (orStay (doRelease L) (orStay doLand s))

/-- the validators answer everything that is in flight -/
def releaseAll (L : Nat) (s : Srv) : Srv := iter (s.flying + 2) (completeOne L) s

/-- `n` submissions with answering validators, one after the other -/
def fill (C L n : Nat) (s : Srv) : Srv := iter n (fun t => completeOne L (submitOne C t)) s

/-- a saved block with pre-execution enabled, observed after `cleanTransactionList` returned: the whole pool is
pending for stateful re-verification -/
def reverifyAll (s : Srv) : Srv :=
  let t := orStay doRemain s
  iter t.limbo (orStay doRequeue) t

/-- all re-verifications / block verifications complete -/
def backAll (L : Nat) (s : Srv) : Srv := iter s.other (orStay (doBack L)) s

/-- `verifyBlock` with `k` transactions that are not in the pool, validators answering -/
def blockVerified (L k : Nat) (s : Srv) : Srv := backAll L (orStay (doBlock k) s)

end Poly.Model.Pool
