/-
Model of `txnpool/common/transaction_pool.go` (TXPool) — C37, sequential part.

The Go pool is `map[Uint256]*TXEntry` under one RWMutex; every method holds the lock for its whole body, so the
sequential behaviour of each method is what is modelled here. The map is an association list in insertion order
(keys unique: theorem, not subtype). Wherever the Go code ranges over the map the model takes the iteration
order as an explicit argument (`order`), and theorems quantify over every permutation of the pool.

Hashes are an arbitrary type with decidable equality (`String` ids in the driver).
-/
namespace Poly.Model.Pool

/-- One validator result (`TXAttr`): height at which it was verified, validator kind (`vt.Stateful = 1`), error code. -/
structure Attr where
  height : Nat
  kind : Nat
  err : Nat
deriving DecidableEq, Repr

def Attr.stateful (a : Attr) : Bool := a.kind == 1

/-- `TXEntry`: the transaction (identified by its hash) and the validator results. -/
structure Entry (H : Type) where
  hash : H
  attrs : List Attr
deriving DecidableEq, Repr

abbrev Pool (H : Type) := List (Entry H)

section
variable {H : Type} [DecidableEq H]

def keys (p : Pool H) : List H := p.map (·.hash)

def find? (p : Pool H) (h : H) : Option (Entry H) := List.find? (fun e => e.hash == h) p

def has (p : Pool H) (h : H) : Bool := p.any (fun e => e.hash == h)

/-- `AddTxList`: false (and no change) when the hash is present, else insert. -/
def add (p : Pool H) (e : Entry H) : Pool H × Bool :=
  if has p e.hash then (p, false) else (p ++ [e], true)

/-- `delete(tp.txList, h)`. -/
def erase (p : Pool H) (h : H) : Pool H := p.filter (fun e => !(e.hash == h))

/-- `DelTxList`. -/
def del (p : Pool H) (h : H) : Pool H × Bool :=
  if has p h then (erase p h, true) else (p, false)

/-- `CleanTransactionList`: the loop `for tx in txs { if present { delete } }`. -/
def clean (p : Pool H) (hs : List H) : Pool H :=
  hs.foldl (fun q h => if has q h then erase q h else q) p

/-- `compareTxHeight`: false iff some stateful result was obtained below `height`. -/
def fresh (height : Nat) (e : Entry H) : Bool :=
  e.attrs.all (fun a => !(a.stateful && decide (a.height < height)))

/-- The `count` computed at the top of `GetTxPool` (`maxTx` = `config.DefConfig.Consensus.MaxTxInBlock`). -/
def getCount (p : Pool H) (byCount : Bool) (maxTx : Nat) : Nat :=
  -- `count <= 0` clears `byCount`; `len < count || !byCount` selects the whole pool
  if maxTx = 0 ∨ byCount = false ∨ p.length < maxTx then p.length else maxTx

/-- The selection loop of `GetTxPool` over the entries in iteration order; `num` = entries taken so far.
Returns (txList, oldTxList). -/
def scan (height count : Nat) : List (Entry H) → Nat → List (Entry H) × List (Entry H)
  | [], _ => ([], [])
  | e :: rest, num =>
    if fresh height e = false then
      match scan height count rest num with
      | (t, o) => (t, e :: o)
    else if num + 1 ≥ count then ([e], [])
    else
      match scan height count rest (num + 1) with
      | (t, o) => (e :: t, o)

/-- `GetTxPool byCount height` with the map iterated in `order` (a permutation of the pool). -/
def getTxPool (p : Pool H) (order : List (Entry H)) (byCount : Bool) (height maxTx : Nat) :
    List (Entry H) × List (Entry H) :=
  scan height (getCount p byCount maxTx) order 0

/-- Result of `GetUnverifiedTxs`. `ver` carries (hash, height, err) of the first stateful result. -/
structure CheckBlk (H : Type) where
  ver : List (H × Nat × Nat)
  unv : List H
  old : List H
deriving DecidableEq, Repr

def unvStep (height : Nat) (st : Pool H × CheckBlk H) (h : H) : Pool H × CheckBlk H :=
  match find? st.1 h with
  | none => (st.1, { st.2 with unv := st.2.unv ++ [h] })
  | some e =>
    if !fresh height e then (erase st.1 h, { st.2 with old := st.2.old ++ [h] })
    else
      match e.attrs.find? (·.stateful) with
      | some a => (st.1, { st.2 with ver := st.2.ver ++ [(h, a.height, a.err)] })
      | none => st      -- no stateful result recorded: the Go loop appends nothing

/-- `GetUnverifiedTxs txs height`: classifies the block's transactions, deleting the stale ones. -/
def getUnverified (p : Pool H) (txs : List H) (height : Nat) : Pool H × CheckBlk H :=
  txs.foldl (unvStep height) (p, ⟨[], [], []⟩)

/-- `Remain`: everything is returned (in iteration order) and the pool is emptied. -/
def remain (_p : Pool H) (order : List (Entry H)) : Pool H × List H := ([], keys order)

/-! ### Operation sequences -/

inductive Op (H : Type) where
  | add (e : Entry H)
  | del (h : H)
  | clean (hs : List H)
  | get (order : List (Entry H)) (byCount : Bool) (height maxTx : Nat)
  | unverified (txs : List H) (height : Nat)
  | remain

/-- State change of one operation (`GetTxPool` only reads). -/
def step (p : Pool H) : Op H → Pool H
  | .add e => (add p e).1
  | .del h => (del p h).1
  | .clean hs => clean p hs
  | .get _ _ _ _ => p
  | .unverified txs height => (getUnverified p txs height).1
  | .remain => []

def run (ops : List (Op H)) : Pool H := ops.foldl step []

end

/-! ### Server level: admission is check-then-act (txnpool/proc)

`TxActor.handleTransaction` (one actor, one message at a time) tests `pool count < C`, then takes one of `L`
slots (blocking), then hands the transaction to a worker; the worker adds it to the pool when both validators
have answered (`putTxPool`: `addTxList` then `removePendingTx`, which gives a slot back when fewer than `L`
transactions are pending). `C = MAX_CAPACITY`, `L = MAX_LIMITATION`. Only counts are modelled. -/

structure Srv where
  pool : Nat        -- entries in the TXPool
  flying : Nat      -- admitted, pending, not yet added to the pool
  landed : Nat      -- added to the pool, still in allPendingTxs (between addTxList and removePendingTx)
  other : Nat       -- pending transactions that took no slot (re-verification, block verification)
  slots : Nat       -- tokens in the `slots` channel
  passed : Bool     -- the actor has passed the capacity test and is waiting for / about to take a slot
deriving DecidableEq, Repr

def Srv.init (L : Nat) : Srv := ⟨0, 0, 0, 0, L, false⟩

def Srv.pending (s : Srv) : Nat := s.flying + s.landed + s.other

/-- the slot refill of `removePendingTx`, evaluated after the delete -/
def Srv.refill (L : Nat) (s : Srv) : Srv :=
  if s.pending < L then { s with slots := min (s.slots + 1) L } else s

/-- Steps of the admission fragment: what `handleTransaction` + workers do, plus block clean-up without
re-verification (`disablePreExec = true`). -/
inductive AStep (C L : Nat) : Srv → Srv → Prop
  /-- capacity test succeeds -/
  | check (s : Srv) : s.passed = false → s.pool < C → AStep C L s { s with passed := true }
  /-- `<-slots` then `assignTxToWorker` (new hash) -/
  | take (s : Srv) : s.passed = true → 0 < s.slots →
      AStep C L s { s with passed := false, slots := s.slots - 1, flying := s.flying + 1 }
  /-- `<-slots` then `assignTxToWorker` refuses a hash that is already pending: the slot is consumed -/
  | takeDup (s : Srv) : s.passed = true → 0 < s.slots →
      AStep C L s { s with passed := false, slots := s.slots - 1 }
  /-- worker: `addTxList` succeeded -/
  | land (s : Srv) : 0 < s.flying →
      AStep C L s { s with flying := s.flying - 1, landed := s.landed + 1, pool := s.pool + 1 }
  /-- worker: `removePendingTx` after the add -/
  | release (s : Srv) : 0 < s.landed → AStep C L s (Srv.refill L { s with landed := s.landed - 1 })
  /-- verification failed / duplicate in pool / retries exhausted: `removePendingTx` without an add -/
  | fail (s : Srv) : 0 < s.flying → AStep C L s (Srv.refill L { s with flying := s.flying - 1 })
  /-- `CleanTransactionList` removes `k` included entries -/
  | clean (s : Srv) (k : Nat) : k ≤ s.pool → AStep C L s { s with pool := s.pool - k }

/-- Full step relation: additionally the paths that move pool entries back to pending without a slot
(`Remain` + `reVerifyStateful` after every saved block unless pre-execution is disabled; stale entries met by
`getTxPool`) and the completion of such a re-verification. -/
inductive FStep (C L : Nat) : Srv → Srv → Prop
  | adm (s t : Srv) : AStep C L s t → FStep C L s t
  /-- `k` pool entries are taken out for stateful re-verification -/
  | reverify (s : Srv) (k : Nat) : k ≤ s.pool → FStep C L s { s with pool := s.pool - k, other := s.other + k }
  /-- `verifyBlock`: `k` transactions of a proposed block that are not in the pool go to the workers (no capacity
  test, no slot) -/
  | block (s : Srv) (k : Nat) : FStep C L s { s with other := s.other + k }
  /-- a re-verified / block-verified transaction is added (back) and leaves the pending list -/
  | back (s : Srv) : 0 < s.other →
      FStep C L s (Srv.refill L { s with other := s.other - 1, pool := s.pool + 1 })

inductive Reach {σ : Type} (r : σ → σ → Prop) (i : σ) : σ → Prop
  | init : Reach r i i
  | step (s t : σ) : Reach r i s → r s t → Reach r i t

end Poly.Model.Pool
