import Poly.Generated.Thresholds
/-!
# NEO 2.x / NEO N3 light clients: decision logic of header sync and state-root (cross-chain message) checks

Model of `native/service/header_sync/{neo,neo3,neo3legacy}/{header_sync,utils}.go`.

* `χ` stands for a consensus script hash (`helper.UInt160`); equality of hashes is equality in `χ`;
* the witness verifier (`tx.VerifyMultiSignatureWitness` of neo-gogogo / neo3-gogogo) is external: a header or a
  state root carries the verdict `wok`. Its algorithm is modelled separately (`witnessCheck`) so that the driver
  can compute the verdict from signature descriptors and so that its contract can be proved.
-/
namespace Poly.Model.LCNeo
open Poly.Generated.Thresholds

/-! ## The library's multi-signature witness check (`VerifyMultiSignatureWitness` + `keys.VerifyMultiSig`) -/

/-- `keys.VerifyMultiSig`: signatures are matched against the script's keys in order; every key is tried at most once. -/
def orderedMatch {κ σ : Type} (ver : κ → σ → Bool) : List σ → List κ → Bool
  | [], _ => true
  | _ :: _, [] => false
  | s :: ss, k :: ks => if ver k s then orderedMatch ver ss ks else orderedMatch ver (s :: ss) ks

/-- `VerifyMultiSignatureWitness` for an m-of-n script over `keys` and the pushed signatures `sigs`. -/
def witnessCheck {κ σ : Type} (ver : κ → σ → Bool) (m : Nat) (keys : List κ) (sigs : List σ) : Bool :=
  decide (m ≤ sigs.length) && decide (sigs.length ≤ keys.length) && decide (sigs.length ≠ 0) && orderedMatch ver sigs keys

/-! ## Header sync (identical in neo, neo3, neo3legacy up to the message encoding) -/

structure Tracked (χ : Type) where
  height : Nat
  next : χ

structure Hdr (χ : Type) where
  index : Nat
  /-- `NextConsensus` field of the header -/
  next : χ
  /-- hash of the verification script of the header's witness -/
  wscript : χ
  /-- verdict of the witness verifier on (header message, witness) -/
  wok : Bool

inductive Rej where
  | noconsensus | scripthash | witness | noscript | contract | nowitness | initialized
  deriving DecidableEq, Repr

inductive Out where
  | ok | reject (r : Rej)
  deriving DecidableEq, Repr

/-- `verifyHeader`: the witness script must be the tracked one and the witness must verify. -/
def verifyHeader {χ : Type} [BEq χ] (t : Tracked χ) (h : Hdr χ) : Except Rej Unit :=
  if t.next != h.wscript then .error .scripthash
  else if !h.wok then .error .witness
  else .ok ()

/-- The loop of `SyncBlockHeader`: every header is compared with the consensus tracked BEFORE the batch. -/
def syncLoop {χ : Type} [BEq χ] (t : Tracked χ) : List (Hdr χ) → Option (Tracked χ) → Except Rej (Option (Tracked χ))
  | [], new => .ok new
  | h :: hs, new =>
    if h.next != t.next && decide (h.index > t.height) then
      match verifyHeader t h with
      | .error e => .error e
      | .ok _ => syncLoop t hs (some ⟨h.index, h.next⟩)
    else syncLoop t hs new

def syncBlockHeader {χ : Type} [BEq χ] (st : Option (Tracked χ)) (hs : List (Hdr χ)) : Option (Tracked χ) × Out :=
  match st with
  | none => (none, .reject .noconsensus)
  | some t =>
    match syncLoop t hs none with
    | .error e => (some t, .reject e)
    | .ok none => (some t, .ok)
    | .ok (some t') => (some t', .ok)

/-- `SyncGenesisHeader` after the operator-witness gate: installs only when nothing is tracked, refuses otherwise. -/
def syncGenesis {χ : Type} (st : Option (Tracked χ)) (index : Nat) (next : χ) : Option (Tracked χ) × Out :=
  match st with
  | none => (some ⟨index, next⟩, .ok)
  | some t => (some t, .reject .initialized)

/-! ## State-root messages -/

/-- NEO 2.x `VerifyCrossChainMsgSig`: `wscript = none` models an empty / undecodable verification script. -/
def verifyMsgNeo2 {χ : Type} [BEq χ] (st : Option (Tracked χ)) (wscript : Option χ) (wok : Bool) : Out :=
  match st with
  | none => .reject .noconsensus
  | some t =>
    match wscript with
    | none => .reject .noscript
    | some w =>
      if t.next != w then .reject .scripthash
      else if !wok then .reject .witness
      else .ok

/-- NEO N3 `VerifyCrossChainMsgSig`: the expected script is the m-of-n contract over the registered state
validators with `m = n - (n-1)/3` (generated threshold site), `contractOf m keys = none` when
`sc.CreateMultiSigContract` refuses the arguments. `wscript = none`: no witness / empty script. -/
def verifyMsgNeo3 {κ χ : Type} [BEq χ] (thr : Int → Int) (contractOf : Nat → List κ → Option χ)
    (validators : List κ) (wscript : Option χ) (wok : Bool) : Out :=
  let m := (thr validators.length).toNat
  match contractOf m validators with
  | none => .reject .contract
  | some expected =>
    match wscript with
    | none => .reject .noscript
    | some w =>
      if expected != w then .reject .scripthash
      else if !wok then .reject .witness
      else .ok

/-! ## Histories -/

inductive Op (χ : Type) where
  | genesis (index : Nat) (next : χ)
  | sync (hs : List (Hdr χ))

def apply {χ : Type} [BEq χ] (st : Option (Tracked χ)) : Op χ → Option (Tracked χ)
  | .genesis i n => (syncGenesis st i n).1
  | .sync hs => (syncBlockHeader st hs).1

def run {χ : Type} [BEq χ] (st : Option (Tracked χ)) : List (Op χ) → Option (Tracked χ)
  | [] => st
  | o :: os => run (apply st o) os

end Poly.Model.LCNeo
