/-
Model of the native-contract runtime (L3):

* `native/native.go`           — `NativeService`: `Invoke` (save/restore of input, notifications, cross hashes,
                                 context stack, including the early returns that skip the restore), `NativeCall`,
                                 `CheckWitness`, `PutMerkleVal`, `AddNotify`;
* `native/storage/cachedb.go`  — `CacheDB` (transaction write buffer over the block overlay), `Reset`, `Commit`;
* `core/store/ledgerstore`     — `executeBlock` / `handleTransaction` / `HandleInvokeTransaction`.

Contract handlers are *arbitrary programs* over the primitive effects a Go handler can reach through the exported
methods of `*NativeService` (interaction trees: every continuation is an arbitrary Lean function), so a theorem
"for all `Prog`" quantifies over every handler that could be written against that API.
Hash functions are parameters (not needed here: cross hashes are produced by the parameter `leafHash`).
Core-only: no Mathlib import.
-/
namespace Poly.Model.Native

abbrev Bytes := List UInt8
abbrev Addr := Bytes
abbrev Hash := Bytes

/-! ### Ordered map with tombstones (`overlaydb.MemDB`): key-sorted association list, empty value = tombstone -/

/-- `bytes.Compare a b < 0`. -/
def bytesLt : Bytes → Bytes → Bool
  | [], [] => false
  | [], _ :: _ => true
  | _ :: _, [] => false
  | a :: as, b :: bs => if a < b then true else if b < a then false else bytesLt as bs

abbrev KV := List (Bytes × Bytes)

def KV.find? : KV → Bytes → Option Bytes
  | [], _ => none
  | (k, v) :: r, x => if k = x then some v else KV.find? r x

/-- `MemDB.Put` (also `Delete` = `Put key nil`): replace or insert at the sorted position. -/
def KV.insert : KV → Bytes → Bytes → KV
  | [], k, v => [(k, v)]
  | (k', v') :: r, k, v =>
    if k' = k then (k, v) :: r
    else if bytesLt k k' then (k, v) :: (k', v') :: r
    else (k', v') :: KV.insert r k v

/-- `MemDB.ForEach` feeding `Put`/`Delete` of the layer below (`CacheDB.Commit`, and the block commit). -/
def KV.commitInto (src dst : KV) : KV := src.foldl (fun o kv => o.insert kv.1 kv.2) dst

/-- Persisting a write set: tombstones delete, other entries overwrite (`saveBlockToStateStore`). -/
def KV.erase : KV → Bytes → KV
  | [], _ => []
  | (k', v') :: r, k => if k' = k then r else (k', v') :: KV.erase r k

def KV.persistInto (src dst : KV) : KV :=
  src.foldl (fun o kv => if kv.2.isEmpty then o.erase kv.1 else o.insert kv.1 kv.2) dst

/-! ### Service state -/

structure Notif where
  contract : Addr
  data : Bytes
deriving DecidableEq, Repr

/-- What `Invoke` hands back to its caller: `(result, nil)`, `(err, nil)` when `PushContext` refuses (the error is
returned *as the result*, with a nil error), `(_, err)`, and the model-only outcome `diverge` (fuel exhausted;
`Proofs/NativeFuel.lean`: from fuel + stack depth ≥ 1027 on, more fuel changes nothing). -/
inductive CallRes where
  | ok (r : Bytes)
  | ctxErr
  | err
  | diverge
  | panic      -- a Go panic inside a handler: nothing in `Invoke` or `executeBlock` recovers it
deriving DecidableEq, Repr

def CallRes.failed : CallRes → Bool
  | .ok _ => false
  | .ctxErr => false
  | .err => true
  | .diverge => true
  | .panic => true

/-- Contract programs: interaction trees over the primitive effects. -/
inductive Prog where
  | ret (r : Bytes)                                              -- return r, nil
  | fail                                                         -- return _, err
  | panic                                                        -- the handler panics (nil dereference, index out of range, …)
  | get (k : Bytes) (next : Bytes → Prog)                        -- GetCacheDB().Get ([] = absent)
  | put (k v : Bytes) (next : Prog)                              -- GetCacheDB().Put
  | del (k : Bytes) (next : Prog)                                -- GetCacheDB().Delete
  | notify (n : Notif) (next : Prog)                             -- AddNotify
  | merkle (d : Bytes) (next : Prog)                             -- PutMerkleVal
  | call (a : Addr) (m : Bytes) (args : Bytes) (next : CallRes → Prog)   -- NativeCall
  | witness (a : Addr) (next : Bool → Prog)                      -- CheckWitness
  | getInput (next : Bytes → Prog)                               -- GetInput
  | context (next : Addr → Addr → Prog)                          -- CurrentContext, CallingContext
  | blockInfo (next : Nat → Nat → Prog)                          -- GetHeight, GetTime
  | log (s : String) (next : Prog)                               -- ghost: the scripted test contract's own record

/-- Ghost record of the primitive effects a transaction performed, in program order (never reset by `Invoke`). -/
inductive Eff where
  | write (k v : Bytes)        -- key as stored (with the ST_STORAGE prefix); `v = []` for a delete
  | event (n : Notif)
  | cross (h : Hash)
deriving DecidableEq, Repr

abbrev Handler := Bytes → Prog
/-- A contract registers its methods into the service map (`RegisterService`). -/
abbrev Contract := List (Bytes × Handler)
/-- `native.Contracts`. -/
abbrev Registry := Addr → Option Contract

structure Svc where
  base : KV                       -- committed state (read-only while a block executes)
  overlay : KV                    -- block write set
  cache : KV                      -- transaction write set
  serviceMap : List (Bytes × Handler)
  notifications : List Notif
  crossHashes : List Hash
  input : Bytes
  contexts : List Addr
  signers : List Addr
  height : Nat
  time : Nat
  log : List String
  effLog : List Eff := []         -- ghost: every primitive effect in program order
  swallowed : Nat := 0            -- ghost: nested invocations that did not return `(result, nil)` to a handler
  panicked : Bool := false        -- a handler panicked: every frame is being unwound

def stPrefix : UInt8 := 0x05   -- common.ST_STORAGE

/-- `CacheDB.Get`: transaction buffer, then block overlay, then the store. A tombstone reads as absent. -/
def Svc.read (s : Svc) (k : Bytes) : Bytes :=
  let pk := stPrefix :: k
  match s.cache.find? pk with
  | some v => v
  | none =>
    match s.overlay.find? pk with
    | some v => v
    | none => (s.base.find? pk).getD []

def emptyAddr : Addr := List.replicate 20 0

/-- `CallingContext`. -/
def callingContext (ctxs : List Addr) : Addr :=
  if ctxs.length < 2 then emptyAddr else ctxs.getD (ctxs.length - 2) emptyAddr

def currentContext (ctxs : List Addr) : Addr :=
  if ctxs.length = 0 then emptyAddr else ctxs.getD (ctxs.length - 1) emptyAddr

/-- `CheckWitness`: a signer of the transaction, or the immediately calling contract. -/
def checkWitness (signers ctxs : List Addr) (a : Addr) : Bool :=
  signers.contains a || (callingContext ctxs != emptyAddr && callingContext ctxs == a)

/-- `PopContext`. -/
def popContext (ctxs : List Addr) : List Addr := if ctxs.length > 1 then ctxs.dropLast else ctxs

/-! ### Wire format of `states.ContractInvokeParam` -/

def leBytes (n : Nat) : Nat → Bytes
  | 0 => []
  | w + 1 => UInt8.ofNat (n % 256) :: leBytes (n / 256) w

def varUint (n : Nat) : Bytes :=
  if n < 0xFD then [UInt8.ofNat n]
  else if n ≤ 0xFFFF then 0xFD :: leBytes n 2
  else if n ≤ 0xFFFFFFFF then 0xFE :: leBytes n 4
  else 0xFF :: leBytes n 8

def varBytes (b : Bytes) : Bytes := varUint b.length ++ b

def encodeParam (a : Addr) (m args : Bytes) : Bytes := 0 :: (a ++ varBytes m ++ varBytes args)

def leNat : Bytes → Nat
  | [] => 0
  | b :: r => b.toNat + 256 * leNat r

/-- `NextBytes n`: none = eof. -/
def takeN (n : Nat) (s : Bytes) : Option (Bytes × Bytes) :=
  if s.length < n then none else some (s.take n, s.drop n)

def nextVarUint (s : Bytes) : Option (Nat × Bytes) :=
  match s with
  | [] => none
  | fb :: r =>
    if fb = 0xFD then (takeN 2 r).map fun (b, r') => (leNat b, r')
    else if fb = 0xFE then (takeN 4 r).map fun (b, r') => (leNat b, r')
    else if fb = 0xFF then (takeN 8 r).map fun (b, r') => (leNat b, r')
    else some (fb.toNat, r)

def nextVarBytes (s : Bytes) : Option (Bytes × Bytes) :=
  match nextVarUint s with
  | none => none
  | some (n, r) => takeN n r

/-- `ContractInvokeParam.Deserialization` (version ≤ MAX_NATIVE_VERSION = 0; trailing bytes ignored). -/
def decodeParam (s : Bytes) : Option (Addr × Bytes × Bytes) :=
  match s with
  | [] => none
  | v :: r =>
    if v ≠ 0 then none else
    match takeN 20 r with
    | none => none
    | some (a, r1) =>
      match nextVarBytes r1 with
      | none => none
      | some (m, r2) =>
        match nextVarBytes r2 with
        | none => none
        | some (args, _) => some (a, m, args)

/-! ### Running a handler program -/

/-- Nested `Invoke`, on a service whose `input` has just been set by `NativeCall`. -/
abbrev Inv := Svc → CallRes × Svc

def maxContextLen : Nat := 1024

section
variable (leafHash : Bytes → Hash)   -- merkle.HashLeaf

def runProg (inv : Inv) : Prog → Svc → Option Bytes × Svc
  | .ret r, s => (some r, s)
  | .fail, s => (none, s)
  | .panic, s => (none, { s with panicked := true })
  | .get k f, s => runProg inv (f (s.read k)) s
  | .put k v n, s => runProg inv n { s with cache := s.cache.insert (stPrefix :: k) v,
                                              effLog := s.effLog ++ [.write (stPrefix :: k) v] }
  | .del k n, s => runProg inv n { s with cache := s.cache.insert (stPrefix :: k) [],
                                            effLog := s.effLog ++ [.write (stPrefix :: k) []] }
  | .notify ev n, s => runProg inv n { s with notifications := s.notifications ++ [ev],
                                                effLog := s.effLog ++ [.event ev] }
  | .merkle d n, s => runProg inv n { s with crossHashes := s.crossHashes ++ [leafHash d],
                                               effLog := s.effLog ++ [.cross (leafHash d)] }
  | .call a m args f, s =>
    let (r, s') := inv { s with input := encodeParam a m args }
    if s'.panicked then (none, s')       -- the panic unwinds through the caller: its continuation never runs
    else runProg inv (f r) (match r with | .ok _ => s' | _ => { s' with swallowed := s'.swallowed + 1 })
  | .witness a f, s => runProg inv (f (checkWitness s.signers s.contexts a)) s
  | .getInput f, s => runProg inv (f s.input) s
  | .context f, s => runProg inv (f (currentContext s.contexts) (callingContext s.contexts)) s
  | .blockInfo f, s => runProg inv (f s.height s.time) s
  | .log m n, s => runProg inv n { s with log := s.log ++ [m] }

def lookupMethod : List (Bytes × Handler) → Bytes → Option Handler
  | [], _ => none
  | (m, h) :: r, x => if m = x then some h else lookupMethod r x

/-- `services(this)`: every `Register` overwrites the entry of that method name; entries of contracts invoked
earlier in the same transaction stay in the map. -/
def registerAll (sm : List (Bytes × Handler)) (c : Contract) : List (Bytes × Handler) :=
  c.foldl (fun acc mh => mh :: acc) sm

/-- State in which `Invoke` returns `(err, nil)` when `PushContext` refuses: input, notifications and cross hashes
have already been replaced and are not restored. -/
def ctxErrState (s : Svc) (sm : List (Bytes × Handler)) (args : Bytes) : Svc :=
  { s with serviceMap := sm, input := args, notifications := [], crossHashes := [] }

/-- State in which the handler starts. -/
def enter (s : Svc) (sm : List (Bytes × Handler)) (addr : Addr) (args : Bytes) : Svc :=
  { s with serviceMap := sm, input := args, notifications := [], crossHashes := [], contexts := s.contexts ++ [addr] }

/-- Successful return: pop the context, put the caller's events in front, the caller's cross hashes *behind*,
restore the caller's input (`s` = state at entry, `s3` = state when the handler returned). -/
def leave (s s3 : Svc) : Svc :=
  { s3 with contexts := popContext s3.contexts,
            notifications := s.notifications ++ s3.notifications,
            crossHashes := s3.crossHashes ++ s.crossHashes,
            input := s.input }

/-- `Invoke` after the handler has been found. A failing handler returns without any restore. -/
def invokeBody (inv : Inv) (s : Svc) (sm : List (Bytes × Handler)) (addr : Addr) (args : Bytes) (h : Handler) :
    CallRes × Svc :=
  if s.contexts.length > maxContextLen then (.ctxErr, ctxErrState s sm args)
  else
    match runProg leafHash inv (h args) (enter s sm addr args) with
    | (none, s3) => (if s3.panicked then .panic else .err, s3)
    | (some r, s3) => (.ok r, leave s s3)

/-- `NativeService.Invoke`, one level; `inv` is the same function one level deeper. -/
def invokeStep (reg : Registry) (inv : Inv) (s : Svc) : CallRes × Svc :=
  match decodeParam s.input with
  | none => (.err, s)
  | some (addr, method, args) =>
    match reg addr with
    | none => (.err, s)
    | some c =>
      match lookupMethod (registerAll s.serviceMap c) method with
      | none => (.err, { s with serviceMap := registerAll s.serviceMap c })
      | some h => invokeBody leafHash inv s (registerAll s.serviceMap c) addr args h

def invokeF (reg : Registry) : Nat → Inv
  | 0 => fun s => (.diverge, s)
  | n + 1 => invokeStep leafHash reg (invokeF reg n)

/-- Enough for every call chain: the context stack refuses the 1026th nested frame. -/
def fuel : Nat := 1030

/-! ### Block execution -/

structure Tx where
  signers : List Addr
  code : Bytes
  chainOk : Bool        -- tx.ChainID == block chain id (`NewNativeService` refuses otherwise)
deriving Repr

/-- `event.ExecuteNotify` (state and events) plus the ghost log. -/
structure TxResult where
  ok : Bool
  notify : List Notif
  cross : List Hash
  log : List String
  effs : List Eff := []      -- ghost: every primitive effect the transaction performed, in program order
  swallowed : Nat := 0       -- ghost: nested invocations whose failure was not propagated
  panicked : Bool := false   -- the handler panicked: in Go the panic leaves `ExecuteBlock` and the whole block is abandoned

/-- What survives from one transaction to the next inside `executeBlock`: the overlay and the (reused) cache. -/
structure BlockState where
  overlay : KV
  cache : KV

structure BlockEnv where
  base : KV
  height : Nat
  time : Nat

def newService (env : BlockEnv) (bs : BlockState) (tx : Tx) : Svc :=
  { base := env.base, overlay := bs.overlay, cache := bs.cache, serviceMap := [], notifications := [],
    crossHashes := [], input := tx.code, contexts := [], signers := tx.signers, height := env.height,
    time := env.time, log := [], effLog := [], swallowed := 0, panicked := false }

/-- One iteration of the loop in `executeBlock`: `cache.Reset()`, `handleTransaction`. -/
def execTx (reg : Registry) (env : BlockEnv) (bs : BlockState) (tx : Tx) : BlockState × TxResult :=
  let bs0 : BlockState := { bs with cache := [] }                  -- cache.Reset()
  if !tx.chainOk then (bs0, { ok := false, notify := [], cross := [], log := [] })
  else
    let (r, s) := invokeF leafHash reg fuel (newService env bs0 tx)
    if r.failed then
      ({ overlay := s.overlay, cache := s.cache },
       { ok := false, notify := [], cross := [], log := s.log, effs := s.effLog, swallowed := s.swallowed,
         panicked := s.panicked })
    else
      ({ overlay := s.cache.commitInto s.overlay, cache := s.cache },   -- service.GetCacheDB().Commit()
       { ok := true, notify := s.notifications, cross := s.crossHashes, log := s.log, effs := s.effLog,
         swallowed := s.swallowed })

def execTxs (reg : Registry) (env : BlockEnv) : BlockState → List Tx → BlockState × List TxResult
  | bs, [] => (bs, [])
  | bs, tx :: rest =>
    let (bs1, r) := execTx leafHash reg env bs tx
    let (bs2, rs) := execTxs reg env bs1 rest
    (bs2, r :: rs)

/-- `store.ExecuteResult` without the two digests (computed from these by hash functions). -/
structure BlockResult where
  writeSet : KV
  crossHashes : List Hash
  notify : List TxResult

def execBlock (reg : Registry) (env : BlockEnv) (txs : List Tx) : BlockResult :=
  let (bs, rs) := execTxs leafHash reg env { overlay := [], cache := [] } txs
  { writeSet := bs.overlay, crossHashes := (rs.map (·.cross)).flatten, notify := rs }

/-- What `ExecuteBlock` hands to its caller: nothing at all when a handler panicked (the panic propagates out of
`executeBlock`; no result exists that could be submitted), otherwise the block result. In the model the transactions
after a panicking one are still evaluated by `execTxs` (as if it had merely failed); their outcome is discarded here. -/
def execBlockP (reg : Registry) (env : BlockEnv) (txs : List Tx) : Option BlockResult :=
  let res := execBlock leafHash reg env txs
  if res.notify.any (·.panicked) then none else some res

end

/-! ### Digests of a block result (hash function = parameter) -/

section
variable (H : Bytes → Hash)

/-- `OverlayDB.ChangeHash`: SHA-256 over key ‖ value of the write set in key order. -/
def changeHash (ws : KV) : Hash := H (ws.flatMap fun kv => kv.1 ++ kv.2)

def hashChildren (l r : Hash) : Hash := H (1 :: (l ++ r))

/-- Largest power of two strictly below `n` (for n ≥ 2): `1 << (highBit(n-1) - 1)`. -/
def splitWidth (n : Nat) : Nat := 2 ^ (Nat.log2 (n - 1))

def hashFull : Nat → List Hash → Hash
  | 0, _ => H []
  | fuel + 1, ls =>
    match ls with
    | [] => H []
    | [a] => a
    | _ =>
      let k := splitWidth ls.length
      hashChildren H (hashFull fuel (ls.take k)) (hashFull fuel (ls.drop k))

/-- `executeBlock`: `CrossStatesRoot`. -/
def crossRoot (ls : List Hash) : Hash :=
  if ls.isEmpty then List.replicate 32 0 else hashFull H (ls.length + 1) ls

end

end Poly.Model.Native
