import Poly.Model.SchemaP2P
import Poly.Model.SchemaDrvLedger
/-! Driver step of family `p2p` (C05): executes the frame model on the op lines of the harness. -/
namespace Poly.Model.SchemaDrv
open Poly.Model.Codec Poly.Model.Schema Poly.Model.SchemaLedger Poly.Model.SchemaP2P

def kindOfPayload : Payload → Kind
  | .schema k _ _ => k | .empty k => k | .block _ _ => .block | .tx _ => .tx

def showPayload : Payload → String
  | .schema _ t v => t.show v
  | .empty _ => "."
  | .block b root => headerTy.show b.header ++ " hash=" ++ hex (headerHash H b.header) ++
      " txs=[" ++ ";".intercalate (b.txs.map fun t => hex t.hash) ++ "] root=" ++ hex root
  | .tx t => txTy.show t.val ++ " hash=" ++ hex t.hash

/-- `msg.Serialization` of a decoded message -/
def encPayload : Payload → Bytes
  | .schema _ t v => t.enc v
  | .empty _ => []
  | .block b root => blockEnc b.header (b.txs.map (·.val)) ++ root
  | .tx t => txTy.enc t.val

def showRead (r : Except PErr (Payload × Nat × Bytes)) : String :=
  match r with
  | .error e => "err:" ++ e.name
  | .ok (m, len, rest) => "ok " ++ (kindOfPayload m).name ++ " " ++ showPayload m ++ " len=" ++ toString len ++ " rest=" ++ toString rest.length

/-- single-byte corruptions examined by `prop`: positions by the shared cut rule, three xor masks each -/
def corruptAt (b : Bytes) (i : Nat) (mask : UInt8) : Bytes :=
  b.take i ++ (match b[i]? with | some x => [x ^^^ mask] | none => []) ++ b.drop (i + 1)

def frameProp (magic : UInt32) (K : Bytes → Option Bytes) (b : Bytes) : String :=
  match readMessage magic K H b with
  | .error e => "FAIL:read:" ++ e.name
  | .ok (m, len, rest) =>
    let fails : List String :=
      (if !rest.isEmpty then ["rest"] else []) ++
      (if frameOf magic H (kindOfPayload m) (encPayload m) != b then ["rewrite"] else []) ++
      (if len + MSG_HDR_LEN != b.length then ["len"] else []) ++
      (if ((cutPoints b.length).filter fun i =>
            -- not the command field (the checksum does not cover the header); the high length bytes for a sample of the frames
            !(4 ≤ i && i < 16) && !((i == 18 || i == 19) && (b.getD 20 0) % 8 != 0)).any (fun i => [(0x01 : UInt8), 0x80, 0xff].any fun mask =>
            match readMessage magic K H (corruptAt b i mask) with | .ok _ => true | .error _ => false)
        then ["corruption-accepted"] else []) ++
      (if (cutPoints b.length).any (fun k => match readMessage magic K H (b.take k) with | .ok _ => true | .error _ => false)
        then ["truncation-accepted"] else [])
    if fails.isEmpty then "ok " ++ (kindOfPayload m).name else "FAIL:" ++ ",".intercalate fails

/-- the deterministic filler of the large-frame op (same formula in the harness) -/
def bigPattern (n seed : Nat) : Bytes := (List.range n).map fun i => UInt8.ofNat ((seed + i) % 251)

def bigOffsets (n : Nat) : List Nat :=
  ([0, 262143, 262144] ++ (if n ≥ 100 then [n - 100] else []) ++ (if n ≥ 2 then [n - 2] else []) ++ (if n ≥ 1 then [n - 1] else [])).filter (· < n)

/-- `bigframe`: frame a message with a payload of exactly `target` bytes, read it back, flip payload bytes at block boundaries
and in the tail -/
def bigFrame (magic : UInt32) (kind : String) (target seed : Nat) : String :=
  let payload? : Option (Kind × Bytes) :=
    if kind == "version" then
      if target < 81 + 0x10000 then none else
      let v : versionTy.Val := (UInt32.ofNat seed, (0 : UInt64), (0 : Int64), (0 : UInt16), (0 : UInt16), (0 : UInt16),
        (List.replicate 32 0 : Bytes), UInt64.ofNat seed, (0 : UInt64), (0 : UInt8), (seed % 2 == 1), bigPattern (target - 81) seed)
      some (.version, versionTy.enc v)
    else if kind == "tx" then
      if target < 58 + 0x10000 then none else
      let t : txTy.Val := (((0 : UInt8), (0xd1 : UInt8), UInt32.ofNat seed, (0 : UInt64), (0 : UInt64), (0 : UInt64), bigPattern (target - 58) seed,
        ([] : Bytes), (List.replicate 20 0 : Bytes), (0 : UInt8)), [])
      some (.tx, txTy.enc t)
    else none
  match payload? with
  | none => "bad-op"
  | some (k, p) =>
    if p.length != target then "bad-op:len=" ++ toString p.length
    else
      let frame := frameOf magic H k p
      let noKey : Bytes → Option Bytes := fun _ => none
      let okRead := match readMessage magic noKey H frame with | .ok _ => true | .error _ => false
      let accepted := (bigOffsets p.length).any fun off =>
        match readMessage magic noKey H (corruptAt frame (24 + off) 0x01) with | .ok _ => true | .error _ => false
      if !okRead then "FAIL:valid-frame-rejected"
      else if accepted then "FAIL:corruption-accepted"
      else "ok " ++ kind ++ " len=" ++ toString p.length ++ " sum=" ++ hex (checksum H p)

def stepP2P (toks : List String) : String :=
  let tbl := parseKeyTable (toks.getLastD "")
  match toks with
  | ["rd", magic, b, _keys] =>
    match magic.toNat?, ofHex b with
    | some mg, some b => showRead (readMessage (UInt32.ofNat mg) (lookupKey tbl) H b)
    | _, _ => "bad-op"
  | ["hold", magic, f1, _f2, _f3, _keys] =>   -- held-message comparison: evaluated on the implementation; the model reads frame 1
    match magic.toNat?, ofHex f1 with
    | some mg, some b =>
      match readMessage (UInt32.ofNat mg) (lookupKey tbl) H b with
      | .ok (m, _, _) => "ok " ++ (kindOfPayload m).name
      | .error _ => "err"
    | _, _ => "bad-op"
  | ["wr2", magic, f1, f2, _junk, _keys] =>   -- two frames appended to one sink are the two frames: evaluated on the implementation
    match magic.toNat?, ofHex f1, ofHex f2 with
    | some mg, some a, some b =>
      match readMessage (UInt32.ofNat mg) (lookupKey tbl) H a, readMessage (UInt32.ofNat mg) (lookupKey tbl) H b with
      | .ok (m1, _, _), .ok (m2, _, _) => "ok " ++ (kindOfPayload m1).name ++ " " ++ (kindOfPayload m2).name
      | _, _ => "bad-op"
    | _, _, _ => "bad-op"
  | ["bigframe", magic, kind, target, seed] =>
    match magic.toNat?, target.toNat?, seed.toNat? with
    | some mg, some t, some sd => bigFrame (UInt32.ofNat mg) kind t sd
    | _, _, _ => "bad-op"
  | ["prop", magic, b, _keys] =>
    match magic.toNat?, ofHex b with
    | some mg, some b => frameProp (UInt32.ofNat mg) (lookupKey tbl) b
    | _, _ => "bad-op"
  | _ => "bad-op"

end Poly.Model.SchemaDrv
