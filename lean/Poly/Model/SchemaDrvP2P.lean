import Poly.Model.SchemaP2P
import Poly.Model.SchemaDrvLedger
/-! Driver step of family `p2p` (C05): executes the frame model on the op lines of the harness. -/
namespace Poly.Model.SchemaDrv
open Poly.Model.Codec Poly.Model.Schema Poly.Model.SchemaLedger Poly.Model.SchemaP2P

def kindOfPayload : Payload → Kind
  | .schema k _ _ => k | .empty k => k | .block _ _ => .block | .tx _ => .tx

def showPayload : Payload → String
  | .schema _ t v => t.show v
  | .empty _ => "."
  | .block b root => headerTy.show b.header ++ " hash=" ++ hex (headerHash H b.header) ++
      " txs=[" ++ ";".intercalate (b.txs.map fun t => hex t.hash) ++ "] root=" ++ hex root
  | .tx t => txTy.show t.val ++ " hash=" ++ hex t.hash

/-- `msg.Serialization` of a decoded message -/
def encPayload : Payload → Bytes
  | .schema _ t v => t.enc v
  | .empty _ => []
  | .block b root => blockEnc b.header (b.txs.map (·.val)) ++ root
  | .tx t => txTy.enc t.val

def showRead (r : Except PErr (Payload × Nat × Bytes)) : String :=
  match r with
  | .error e => "err:" ++ e.name
  | .ok (m, len, rest) => "ok " ++ (kindOfPayload m).name ++ " " ++ showPayload m ++ " len=" ++ toString len ++ " rest=" ++ toString rest.length

/-- single-byte corruptions examined by `prop`: positions by the shared cut rule, three xor masks each -/
def corruptAt (b : Bytes) (i : Nat) (mask : UInt8) : Bytes :=
  b.take i ++ (match b[i]? with | some x => [x ^^^ mask] | none => []) ++ b.drop (i + 1)

def frameProp (magic : UInt32) (K : Bytes → Option Bytes) (b : Bytes) : String :=
  match readMessage magic K H b with
  | .error e => "FAIL:read:" ++ e.name
  | .ok (m, len, rest) =>
    let fails : List String :=
      (if !rest.isEmpty then ["rest"] else []) ++
      (if frameOf magic H (kindOfPayload m) (encPayload m) != b then ["rewrite"] else []) ++
      (if len + MSG_HDR_LEN != b.length then ["len"] else []) ++
      (if ((cutPoints b.length).filter fun i =>
            -- not the command field (the checksum does not cover the header); the high length bytes for a sample of the frames
            !(4 ≤ i && i < 16) && !((i == 18 || i == 19) && (b.getD 20 0) % 8 != 0)).any (fun i => [(0x01 : UInt8), 0x80, 0xff].any fun mask =>
            match readMessage magic K H (corruptAt b i mask) with | .ok _ => true | .error _ => false)
        then ["corruption-accepted"] else []) ++
      (if (cutPoints b.length).any (fun k => match readMessage magic K H (b.take k) with | .ok _ => true | .error _ => false)
        then ["truncation-accepted"] else [])
    if fails.isEmpty then "ok " ++ (kindOfPayload m).name else "FAIL:" ++ ",".intercalate fails

def stepP2P (toks : List String) : String :=
  let tbl := parseKeyTable (toks.getLastD "")
  match toks with
  | ["rd", magic, b, _keys] =>
    match magic.toNat?, ofHex b with
    | some mg, some b => showRead (readMessage (UInt32.ofNat mg) (lookupKey tbl) H b)
    | _, _ => "bad-op"
  | ["prop", magic, b, _keys] =>
    match magic.toNat?, ofHex b with
    | some mg, some b => frameProp (UInt32.ofNat mg) (lookupKey tbl) b
    | _, _ => "bad-op"
  | _ => "bad-op"

end Poly.Model.SchemaDrv
