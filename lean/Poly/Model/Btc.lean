/-
Model of the BTC coin selector (native/service/cross_chain_manager/btc/states.go: CoinSelector.Select,
SimpleBnbSearch, SortedSearch, getLossRatio, estimateTxFee, estimateTxSize) and of chooseUtxos
(utils.go: sort, select, record as spent, remove from the unspent set) and the change output of makeBtcTx (C26).

Conventions (DESIGN.md section 4):
* a Go `[]*Utxo` is a `List Utxo` (values; the code, after the `fix:` commits, never reads a slot through
  an alias after overwriting it: the trial selection of pass 1 is built in a fresh slice);
* the float-valued tests are parameters of the model (`Tests`): theorems hold for every answer, the driver
  instantiates them with IEEE doubles (`Float`), exactly the operations of the Go code;
* script classification by btcd (`txscript.GetScriptClass`, `txscript.IsPayToScriptHash`) is external: every
  UTXO carries the two Booleans the code asks for;
* `uint64` sums are `Nat` (assumption: the total value of a UTXO set and `target + minChange` are below 2^64);
  the fee product `size * feeRate` is reduced mod 2^64 as in Go;
* Go `nil` result = `none`; index out of range = the distinguished outcome `panic`.
-/
namespace Poly.Model.Btc

structure Utxo where
  /-- identity of the outpoint (position in the op line / store key); never inspected by the selector -/
  id : Nat
  value : Nat
  /-- `txscript.GetScriptClass(ScriptPubkey) == WitnessV0ScriptHashTy` -/
  wit : Bool
  /-- `txscript.IsPayToScriptHash(ScriptPubkey)` -/
  p2sh : Bool
  /-- `Op.Hash` and `Op.Index` (used by the sort order and by the removal walk of chooseUtxos) -/
  hash : List UInt8 := []
  index : Nat := 0
deriving Repr, DecidableEq, Inhabited

/-- The float-valued tests of the selector. -/
structure Tests where
  /-- fee ↦ `float64(fee)/float64(target) >= maxP` -/
  lrGe : Nat → Bool
  /-- sum ↦ `float64(sum) > k*float64(target)` -/
  gtK : Nat → Bool
  /-- sum ↦ `float64(sum) <= k*float64(target)` -/
  leK : Nat → Bool

/-- The integer fields of `CoinSelector` plus the serialized sizes of `txOuts`. -/
structure Params where
  mc : Nat
  target : Nat
  feeRate : Nat
  m : Nat
  n : Nat
  /-- pkScript lengths of `selector.txOuts` -/
  outs : List Nat

/-- `wire.VarIntSerializeSize`. -/
def varIntSize (v : Nat) : Nat :=
  if v < 0xfd then 1 else if v ≤ 0xffff then 3 else if v ≤ 0xffffffff then 5 else 9

/-- `wire.TxOut.SerializeSize` for a pkScript of the given length. -/
def txOutSize (pkLen : Nat) : Nat := 8 + varIntSize pkLen + pkLen

def countWit (sel : List Utxo) : Nat := (sel.filter (·.wit)).length

/-- `estimateTxSize`. -/
def estimateTxSize (P : Params) (sel : List Utxo) : Nat :=
  let redeemSize := 1 + P.m * (1 + 75) + 1 + 1 + P.n * (1 + 33) + 1 + 1
  let p2shInputSize := 43 + redeemSize
  let witnessInputSize := 41 + redeemSize / 4
  let outsSize := (P.outs.map txOutSize).sum
  let witNum := countWit sel
  10 + 2 + varIntSize sel.length + varIntSize (P.outs.length + 1) + (sel.length - witNum) * p2shInputSize +
    witNum * witnessInputSize + outsSize

/-- `estimateTxFee`: `uint64(size) * feeRate` (wraps). -/
def estimateTxFee (P : Params) (sel : List Utxo) : Nat := (estimateTxSize P sel * P.feeRate) % 2 ^ 64

def sumValues (sel : List Utxo) : Nat := (sel.map (·.value)).sum

/-- `sum == target || sum >= target+mc` -/
def hits (P : Params) (sum : Nat) : Bool := sum == P.target || sum ≥ P.target + P.mc

structure Answer where
  sel : List Utxo
  sum : Nat
  fee : Nat
deriving Repr, DecidableEq

inductive Res where
  | none                     -- Go: nil, 0, 0
  | some (a : Answer)        -- Go: non-nil selection
  | panic                    -- Go: run-time panic (index out of range)
deriving Repr, DecidableEq

/-! ### SimpleBnbSearch -/

/-- Number of further levels the depth walk 0, L-1, 1, L-2, … can still visit from `depth` (termination measure). -/
def mu (L : Nat) (depth : Int) : Nat :=
  if depth < 0 ∨ depth ≥ L then 0
  else if depth < (L : Int) / 2 then ((L : Int) - 2 * depth).toNat
  else if depth = (L : Int) / 2 then 1
  else (2 * depth - L + 1).toNat

/-- `next` of the default branch. -/
def nextDepth (L : Nat) (depth : Int) : Int :=
  if depth > (L : Int) / 2 then (L : Int) - depth
  else if depth < (L : Int) / 2 then (L : Int) - depth - 1
  else -1

theorem mu_low (L : Nat) (d : Int) (h0 : 0 ≤ d) (h : d < (L : Int) / 2) : mu L d = ((L : Int) - 2 * d).toNat := by
  unfold mu; rw [if_neg (by omega), if_pos h]
theorem mu_mid (L : Nat) (d : Int) (h0 : 0 ≤ d) (hL : d < L) (h : d = (L : Int) / 2) : mu L d = 1 := by
  unfold mu; rw [if_neg (by omega), if_neg (by omega), if_pos h]
theorem mu_high (L : Nat) (d : Int) (hL : d < L) (h : d > (L : Int) / 2) : mu L d = (2 * d - L + 1).toNat := by
  unfold mu; rw [if_neg (by omega), if_neg (by omega), if_neg (by omega)]
theorem mu_out (L : Nat) (d : Int) (h : d < 0 ∨ d ≥ L) : mu L d = 0 := by
  unfold mu; rw [if_pos h]

theorem mu_next_lt (L : Nat) (depth : Int) (h0 : 0 ≤ depth) (hL : depth < L) :
    mu L (nextDepth L depth) < mu L depth := by
  rcases Int.lt_trichotomy depth ((L : Int) / 2) with hlt | heq | hgt
  · have hn : nextDepth L depth = (L : Int) - depth - 1 := by
      unfold nextDepth; rw [if_neg (by omega), if_pos hlt]
    rw [hn, mu_low L depth h0 hlt]
    rcases Int.lt_trichotomy ((L : Int) - depth - 1) ((L : Int) / 2) with a | a | a
    · omega
    · rw [mu_mid L _ (by omega) (by omega) a]; omega
    · rw [mu_high L _ (by omega) a]; omega
  · have hn : nextDepth L depth = -1 := by
      unfold nextDepth; rw [if_neg (by omega), if_neg (by omega)]
    rw [hn, mu_out L (-1) (by omega), mu_mid L depth h0 hL heq]; omega
  · have hn : nextDepth L depth = (L : Int) - depth := by
      unfold nextDepth; rw [if_pos hgt]
    rw [hn, mu_high L depth hL hgt]
    rcases Int.lt_trichotomy ((L : Int) - depth) ((L : Int) / 2) with a | a | a
    · rw [mu_low L _ (by omega) a]; omega
    · rw [mu_mid L _ (by omega) (by omega) a]; omega
    · omega

/-- `SimpleBnbSearch(depth, selection, sum)`; `tries` is the selector's mutable budget, threaded through. -/
def bnb (T : Tests) (P : Params) (utxos : List Utxo) (depth : Int) (sel : List Utxo) (sum : Nat) (tries : Int) :
    Res × Int :=
  let fee := estimateTxFee P sel
  if T.lrGe fee || T.gtK sum then (.none, tries)
  else if sum == P.target || (sum ≥ P.target + P.mc && T.leK sum) then (.some ⟨sel, sum, fee⟩, tries)
  else if tries ≤ 0 || depth == -1 then (.none, tries)
  else
    let tries := tries - 1
    if h : 0 ≤ depth ∧ depth < utxos.length then
      let u := utxos[depth.toNat]'(by omega)
      let next := nextDepth utxos.length depth
      match bnb T P utxos next (sel ++ [u]) (sum + u.value) tries with
      | (.none, tries1) =>
        if next == -1 then (.none, tries1)
        else bnb T P utxos next sel sum tries1
      | r => r
    else (.panic, tries)
termination_by mu utxos.length depth
decreasing_by
  all_goals exact mu_next_lt _ _ h.1 h.2

/-! ### SortedSearch (after the repair: the trial selection of pass 1 is a fresh slice, a skipped pay-to-script-hash
    output is taken out of the running sum again) -/

def sortedLoop (T : Tests) (P : Params) : List Utxo → Bool → List Utxo → Nat → Nat → Res
  | [], pass, sel, sum, fee => if pass then .some ⟨sel, sum, fee⟩ else .none
  | u :: rest, false, sel, sum, _ =>
    let sel1 := sel ++ [u]
    let sum1 := sum + u.value
    let fee1 := estimateTxFee P sel1
    if T.lrGe fee1 then
      if u.p2sh then sortedLoop T P rest false sel sum fee1
      else .none
    else sortedLoop T P rest (hits P sum1) sel1 sum1 fee1
  | u :: rest, true, sel, sum, fee =>
    match sel.getLast? with
    | Option.none => .panic
    | Option.some last =>
      let trial := sel.dropLast ++ [u]
      let feeReplaced := estimateTxFee P trial
      let sumTemp := sum - last.value + u.value
      if hits P sumTemp && !T.lrGe feeReplaced then sortedLoop T P rest true trial sumTemp feeReplaced
      else .some ⟨sel, sum, fee⟩

def sortedSearch (T : Tests) (P : Params) (utxos : List Utxo) : Res := sortedLoop T P utxos false [] 0 0

/-! ### Select -/

def select (T : Tests) (P : Params) (utxos : List Utxo) (tries : Int) : Res :=
  if utxos.isEmpty then .none
  else
    match (bnb T P utxos 0 [] 0 tries).1 with
    | .some a => .some a
    | .panic => .panic
    | .none => sortedSearch T P utxos

/-! ### chooseUtxos: sort, select, record as spent, remove from the unspent set -/

/-- `bytes.Compare(a, b) == -1` -/
def bytesLt : List UInt8 → List UInt8 → Bool
  | [], [] => false
  | [], _ :: _ => true
  | _ :: _, [] => false
  | a :: as, b :: bs => if a < b then true else if b < a then false else bytesLt as bs

/-- `Utxos.Less` on two elements: by value, then transaction hash, then output index. -/
def less (a b : Utxo) : Bool :=
  if a.value == b.value then
    if a.hash == b.hash then a.index < b.index else bytesLt a.hash b.hash
  else a.value < b.value

/-- `sort.Sort(sort.Reverse(utxos))`: stable insertion sort by the reversed order. `sort.Sort` is this very
    algorithm for fewer than 12 elements and an unstable pdqsort above; on inputs whose outpoints (hash, index) are
    pairwise different the order is total and every correct sort returns this list. -/
def insertDesc (u : Utxo) : List Utxo → List Utxo
  | [] => [u]
  | v :: r => if less u v then v :: insertDesc u r else u :: v :: r

def sortDesc : List Utxo → List Utxo
  | [] => []
  | u :: r => insertDesc u (sortDesc r)

/-- `OutPoint.String()`: `""` unless the hash has 32 bytes. -/
def opKey (u : Utxo) : Option (List UInt8 × Nat) := if u.hash.length = 32 then some (u.hash, u.index) else none

/-- The removal walk: for each selected output (in sorted order) advance `idx` to the entry with the same outpoint
    string and delete it; `idx` never moves back. `none` = index out of range (Go panics). -/
def removeWalk : List Utxo → Nat → List Utxo → Option (List Utxo)
  | utxos, _, [] => some utxos
  | utxos, idx, v :: rest =>
    match (utxos.drop idx).findIdx? (fun x => opKey x == opKey v) with
    | none => none
    | some k => removeWalk (utxos.eraseIdx (idx + k)) (idx + k) rest

structure Store where
  utxos : List Utxo
  stxos : List Utxo
deriving Repr

inductive ChooseRes where
  | err                                   -- "current utxo is not enough"
  | ok (a : Answer) (s : Store)
  | panic
deriving Repr

def chooseUtxos (T : Tests) (P : Params) (s : Store) (tries : Int) : ChooseRes :=
  let sorted := sortDesc s.utxos
  match select T P sorted tries with
  | .panic => .panic
  | .none => .err
  | .some a =>
    if a.sel.isEmpty then .err
    else
      let result := sortDesc a.sel      -- `sort.Sort(sort.Reverse(toSort))` sorts `result` in place
      match removeWalk sorted 0 result with
      | none => .panic
      | some rest => .ok ⟨result, a.sum, a.fee⟩ ⟨rest, s.stxos ++ a.sel⟩

/-- `out.Value = sum - amountSum` in makeBtcTx (int64 arithmetic). -/
def change (sum amount : Int) : Int := sum - amount

/-! ### MultiSign (btc_handler.go): collecting the redeem-script signatures of a built withdrawal -/

/-- A withdrawal transaction stored by makeBtcTx, waiting for signatures. -/
structure Pending where
  inputs : List Utxo
  /-- outputs: value and whether the output pays the multisig's own witness script (the change output does; the
      payment output does when the withdrawal address is that script) -/
  outs : List (Nat × Bool)
  /-- redeem-script keys that have signed (the keys of `MultiSignInfo`) -/
  signers : List Nat
deriving Repr

/-- `getStxoAmts`: for every input delete the first spent-record entry with the same outpoint; `none` = not found. -/
def removeInputs : List Utxo → List Utxo → Option (List Utxo)
  | stxos, [] => some stxos
  | stxos, i :: rest =>
    match stxos.findIdx? (fun x => x.hash == i.hash && x.index == i.index) with
    | none => none
    | some k => removeInputs (stxos.eraseIdx k) rest

inductive SignRes where
  | errSigned                       -- "address %s already sign"
  | errEnough                       -- "already enough signature"
  | errStxo                         -- "txIn not found in stxos"
  | errVerify                       -- signature verification failed
  | pending (p : Pending)           -- recorded, more signatures needed: the records are untouched
  | final (p : Pending) (s : Store) -- last signature: change outputs become unspent, the inputs leave the spent record
deriving Repr

/-- The outputs of the signed transaction that pay the multisig's witness script, as new unspent outputs
    (`mk index value` builds the record: hash = id of the signed transaction). -/
def newUtxos (mk : Nat → Nat → Utxo) (outs : List (Nat × Bool)) : List Utxo :=
  outs.zipIdx.filterMap fun x => if x.1.2 then some (mk x.2 x.1.1) else none

/-- One `MultiSign` call by redeem key `signer`; `required` = number of signatures the redeem script needs;
    `sigOK` = verifySigs accepts the supplied signatures (external cryptography). -/
def multiSign (required : Nat) (s : Store) (p : Pending) (signer : Nat) (sigOK : Bool) (mk : Nat → Nat → Utxo) : SignRes :=
  if p.signers.contains signer then .errSigned
  else if p.signers.length == required then .errEnough
  else
    match removeInputs s.stxos p.inputs with
    | none => .errStxo
    | some stxos' =>
      if !sigOK then .errVerify
      else
        let p' := { p with signers := p.signers ++ [signer] }
        if p'.signers.length != required then .pending p'
        else .final p' { utxos := s.utxos ++ newUtxos mk p.outs, stxos := stxos' }

/-! ### Histories: deposits add an output to the unspent record, withdrawals run chooseUtxos, completed signature
    rounds add the change outputs -/

inductive Ev where
  | deposit (u : Utxo)
  | withdraw (T : Tests) (P : Params) (tries : Int)
  | finalize (inputs new : List Utxo)

/-- One event on (store, selections made so far, oldest first). A failed withdrawal changes nothing. -/
def stepEv (st : Store × List (List Utxo)) : Ev → Store × List (List Utxo)
  | .deposit u => ({ st.1 with utxos := st.1.utxos ++ [u] }, st.2)
  | .withdraw T P tries =>
    match chooseUtxos T P st.1 tries with
    | .ok a s' => (s', st.2 ++ [a.sel])
    | _ => st
  | .finalize inputs new =>
    match removeInputs st.1.stxos inputs with
    | some stxos' => ({ utxos := st.1.utxos ++ new, stxos := stxos' }, st.2)
    | none => st

def runHist (s : Store) (evs : List Ev) : Store × List (List Utxo) := evs.foldl stepEv (s, [])

/-- the outputs that enter the unspent record during a history (given that its signature rounds complete) -/
def deposits : List Ev → List Utxo
  | [] => []
  | .deposit u :: r => u :: deposits r
  | .withdraw .. :: r => deposits r
  | .finalize _ new :: r => new ++ deposits r

end Poly.Model.Btc
