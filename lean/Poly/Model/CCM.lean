/-!
# Cross-chain manager entrance (C20, C21, C22)

Model of `cross_chain_manager.ImportExTransfer`, `MakeTransaction`, `BlackChain`, `WhiteChain` in code order over an
abstract store. The router-specific part of `MakeDepositProposal` (proof / header / vote verification) is an
oracle parameter `verify`; what every router does after a successful verification — `CheckDoneTx`, `PutDoneTx`,
return the parameters — is part of the model. The consensus-vote router is modelled concretely in
`Poly/Model/CCMVote.lean` and instantiates the oracle in the correspondence driver.

A transaction is atomic (C15): a failing import returns the state it started from.
-/
namespace Poly.Model.CCM

abbrev Bytes := List UInt8

/-! ## encodings (`common.ZeroCopySink`) -/

def leBytes (width n : Nat) : Bytes := (List.range width).map fun i => UInt8.ofNat (n / 256 ^ i % 256)

def u16le (n : Nat) : Bytes := leBytes 2 n
def u32le (n : Nat) : Bytes := leBytes 4 n
def u64le (n : Nat) : Bytes := leBytes 8 n

/-- `WriteVarUint` -/
def varUint (n : Nat) : Bytes :=
  if n < 0xFD then [UInt8.ofNat n]
  else if n ≤ 0xFFFF then 0xFD :: u16le n
  else if n ≤ 0xFFFFFFFF then 0xFE :: u32le n
  else 0xFF :: u64le n

/-- `WriteVarBytes` -/
def varBytes (b : Bytes) : Bytes := varUint b.length ++ b

/-- `scom.MakeTxParam` -/
structure MakeTxParam where
  txHash : Bytes
  crossChainID : Bytes
  fromContract : Bytes
  toChainID : Nat
  toContract : Bytes
  method : Bytes
  args : Bytes
deriving DecidableEq, Repr

/-- `MakeTxParam.Serialization` -/
def encMakeTxParam (p : MakeTxParam) : Bytes :=
  varBytes p.txHash ++ varBytes p.crossChainID ++ varBytes p.fromContract ++ u64le p.toChainID ++
  varBytes p.toContract ++ varBytes p.method ++ varBytes p.args

/-- `ToMerkleValue.Serialization`: relay-chain tx hash, source chain, the verified message -/
def encToMerkleValue (txHash : Bytes) (fromChain : Nat) (p : MakeTxParam) : Bytes :=
  varBytes txHash ++ u64le fromChain ++ encMakeTxParam p

/-- `merkle.HashLeaf` -/
def hashLeaf (H : Bytes → Bytes) (data : Bytes) : Bytes := H (0 :: data)

/-! ## routers (`utils/params.go`, `cross_chain_manager.GetChainHandler`) -/

def VOTE_ROUTER : Nat := 0
def BTC_ROUTER : Nat := 1
def RIPPLE_ROUTER : Nat := 23

/-- routers for which `cross_chain_manager.GetChainHandler` has a case -/
def supportedRouters : List Nat := [0, 1, 2, 3, 4, 14, 5, 8, 6, 7, 9, 17, 10, 12, 16, 19, 18, 20, 21, 22, 23]

/-- `utils.CheckRouterStartBlock` on main net: first relay-chain height at which the router may be used -/
def routerStartBlock (mainNet : Bool) (router : Nat) : Nat :=
  if mainNet && (router == 21 || router == 20 || router == 22) then 18823000 else 0

/-! ## state -/

/-- association list with replace-on-put -/
def putAssoc {κ ν : Type} [DecidableEq κ] (m : List (κ × ν)) (k : κ) (v : ν) : List (κ × ν) :=
  match m with
  | [] => [(k, v)]
  | (k', v') :: r => if k' = k then (k, v) :: r else (k', v') :: putAssoc r k v

structure State (α : Type) where
  /-- side-chain registry: chain id ↦ router (`side_chain_manager.GetSideChain`) -/
  chains : List (Nat × Nat)
  /-- `BLACKED_CHAIN` records -/
  black : List Nat
  /-- `DONE_TX` records: (source chain, cross-chain id) -/
  done : List (Nat × Bytes)
  /-- `REQUEST` records: (destination chain, relay tx hash) ↦ ToMerkleValue bytes -/
  requests : List ((Nat × Bytes) × Bytes)
  /-- router-private records (vote tallies, …) -/
  aux : α

/-- what is fixed for one transaction -/
structure Env where
  height : Nat
  mainNet : Bool
  /-- `config.NETWORK_ID_TEST_NET != NetworkId || height >= 19954185`: the condition under which the consensus-vote
  router performs the done-tx check (every other router performs it always) -/
  doneGate : Bool
  /-- hash of the relay-chain transaction being executed -/
  txHash : Bytes

/-- result of the router-specific verification -/
inductive Verdict (α : Type) where
  /-- verification failed with an error -/
  | reject (cls : String)
  /-- `(nil, nil)`: nothing to execute yet (vote / ripple routers collecting votes); router records may change -/
  | pending (aux : α)
  /-- verified message; router records may change -/
  | accept (p : MakeTxParam) (aux : α)

inductive Outcome where
  | ok            -- BYTE_TRUE after MakeTransaction
  | okPending     -- BYTE_TRUE, nothing executed
  | okDelegated   -- BYTE_TRUE after the BTC / ripple MakeTransaction
  | reject (cls : String)
  | panic
deriving DecidableEq, Repr

/-- The oracles: router verification per router id, and the BTC / ripple transaction builders (not modelled). -/
structure Oracles (α ι : Type) where
  verify : Nat → Env → State α → ι → Verdict α
  btcMake : Env → State α → MakeTxParam → Nat → Option (State α)
  rippleMake : Env → State α → MakeTxParam → Nat → Option (State α)

structure Result (α : Type) where
  outcome : Outcome
  state : State α
  crossHashes : List Bytes

def fail {α : Type} (s : State α) (cls : String) : Result α := ⟨.reject cls, s, []⟩

/-- The done-tx check is active: always, except in the consensus-vote router on test net below height 19954185. -/
def doneActive (env : Env) (router : Nat) : Bool := env.doneGate || router != VOTE_ROUTER

/-- `MakeDepositProposal` of any router: router-specific verification, then `CheckDoneTx` / `PutDoneTx`. -/
def makeDepositProposal {α ι : Type} (o : Oracles α ι) (router : Nat) (env : Env) (s : State α) (src : Nat) (inp : ι) :
    Except String (Option MakeTxParam × State α) :=
  match o.verify router env s inp with
  | .reject c => .error c
  | .pending aux => .ok (none, { s with aux := aux })
  | .accept p aux =>
    if doneActive env router then
      if (src, p.crossChainID) ∈ s.done then .error "done"
      else .ok (some p, { s with aux := aux, done := (src, p.crossChainID) :: s.done })
    else .ok (some p, { s with aux := aux })

/-- `MakeTransaction` + `PutRequest` + `PutMerkleVal` -/
def makeTransaction {α : Type} (H : Bytes → Bytes) (env : Env) (s : State α) (p : MakeTxParam) (fromChain : Nat) :
    State α × List Bytes :=
  let value := encToMerkleValue env.txHash fromChain p
  ({ s with requests := putAssoc s.requests (p.toChainID, env.txHash) value }, [hashLeaf H value])

/-- `ImportExTransfer` in code order; `s0` is returned unchanged on every failure. -/
def importExTransfer {α ι : Type} (H : Bytes → Bytes) (o : Oracles α ι) (env : Env) (s0 : State α) (src : Nat) (inp : ι) :
    Result α :=
  if src ∈ s0.black then fail s0 "src-black" else
  match s0.chains.lookup src with
  | none => fail s0 "src-unreg"
  | some router =>
    if router ∉ supportedRouters then fail s0 "router" else
    if env.height < routerStartBlock env.mainNet router then fail s0 "router" else
    match makeDepositProposal o router env s0 src inp with
    | .error c => fail s0 c
    | .ok (none, s1) =>
      if router = VOTE_ROUTER ∨ router = RIPPLE_ROUTER then ⟨.okPending, s1, []⟩ else ⟨.panic, s0, []⟩
    | .ok (some p, s1) =>
      let target := p.toChainID
      if target ∈ s1.black then fail s0 "dst-black" else
      match s1.chains.lookup target with
      | none => fail s0 "dst-unreg"
      | some trouter =>
        if trouter = BTC_ROUTER then
          match o.btcMake env s1 p src with
          | some s2 => ⟨.okDelegated, s2, []⟩
          | none => fail s0 "verify"
        else if trouter = RIPPLE_ROUTER then
          match o.rippleMake env s1 p src with
          | some s2 => ⟨.okDelegated, s2, []⟩
          | none => fail s0 "verify"
        else
          let (s2, xh) := makeTransaction H env s1 p src
          ⟨.ok, s2, xh⟩

/-- `BlackChain` / `WhiteChain`: operator witness, then put / delete of the blacklist record. -/
def blackChain {α : Type} (s : State α) (operatorWitness : Bool) (chain : Nat) : Outcome × State α :=
  if !operatorWitness then (.reject "witness", s)
  else (.ok, { s with black := if chain ∈ s.black then s.black else chain :: s.black })

def whiteChain {α : Type} (s : State α) (operatorWitness : Bool) (chain : Nat) : Outcome × State α :=
  if !operatorWitness then (.reject "witness", s)
  else (.ok, { s with black := s.black.filter (· != chain) })

/-! ## histories -/

/-- One transaction of a history. Registry changes are whatever the side-chain manager does (C35): here any
register / remove of a chain record. -/
inductive Op (ι : Type) where
  | importTx (env : Env) (src : Nat) (inp : ι)
  | black (operatorWitness : Bool) (chain : Nat)
  | white (operatorWitness : Bool) (chain : Nat)
  | register (chain router : Nat)
  | unregister (chain : Nat)

def step {α ι : Type} (H : Bytes → Bytes) (o : Oracles α ι) (s : State α) : Op ι → State α
  | .importTx env src inp => (importExTransfer H o env s src inp).state
  | .black w c => (blackChain s w c).2
  | .white w c => (whiteChain s w c).2
  | .register c r => { s with chains := putAssoc s.chains c r }
  | .unregister c => { s with chains := s.chains.filter (·.1 != c) }

def run {α ι : Type} (H : Bytes → Bytes) (o : Oracles α ι) (s : State α) (ops : List (Op ι)) : State α :=
  ops.foldl (step H o) s

/-- The (source chain, cross-chain id) an import executed, if it was accepted (outcome `ok` / `okDelegated`). -/
def acceptedId {α ι : Type} (H : Bytes → Bytes) (o : Oracles α ι) (s : State α) : Op ι → Option (Nat × Bytes)
  | .importTx env src inp =>
    match (importExTransfer H o env s src inp).outcome with
    | .ok | .okDelegated =>
      match s.chains.lookup src with
      | some router =>
        match o.verify router env s inp with
        | .accept p _ => some (src, p.crossChainID)
        | _ => none
      | none => none
    | _ => none
  | _ => none

/-- Number of accepted imports of message `m` along a history. -/
def countAccepted {α ι : Type} (H : Bytes → Bytes) (o : Oracles α ι) (m : Nat × Bytes) : State α → List (Op ι) → Nat
  | _, [] => 0
  | s, op :: rest =>
    (if acceptedId H o s op = some m then 1 else 0) + countAccepted H o m (step H o s op) rest

end Poly.Model.CCM
