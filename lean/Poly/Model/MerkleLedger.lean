import Poly.Model.Merkle
/-
Model of the ledger glue that serves Merkle proofs to relayers (C08):
core/store/ledgerstore (saveBlockToStateStore: AddBlockMerkleTreeRoot(PrevBlockHash), AddCrossStates;
executeBlock: CrossStatesRoot = HashFullTreeWithLeafHash(CrossHashes); GetCrossStatesProof) and
core/ledger.Ledger.GetMerkleProof (the `+1` shifts). Everything else of the ledger (block store, execution,
signatures) is outside this model: a committed block is given by its hash and the (storage key, record)
pairs its successful transactions committed, in order.
-/
namespace Poly.Model.MerkleLedger
open Poly.Spec.RFC6962 Poly.Model.Merkle

structure Ledger where
  acc : State                                   -- block-hash accumulator with its hash file
  hashes : List Hash                            -- block hash by height
  cross : List (List Hash)                      -- cross hashes stored under each height ([] = nothing stored)
  storage : List (List UInt8 × List UInt8)      -- contract storage, latest write first
deriving Repr

inductive LErr where
  | merkle (e : Err)
  | noCrossStates | noStorage | noBlock
deriving Repr

def LErr.name : LErr → String
  | .merkle e => e.name
  | .noCrossStates => "reject:no-cross-states"
  | .noStorage => "reject:no-storage"
  | .noBlock => "reject:no-block"

section
variable (H : List UInt8 → List UInt8)

def lookup (key : List UInt8) : List (List UInt8 × List UInt8) → Option (List UInt8)
  | [] => none
  | (k, v) :: r => if k = key then some v else lookup key r

/-- `saveBlockToStateStore` restricted to the two Merkle structures: the accumulator gets the
PREVIOUS block's hash as leaf data, the cross hashes are `HashLeaf(record)` in execution order. -/
def commit (l : Ledger) (prevHash blockHash : Hash) (recs : List (List UInt8 × List UInt8)) : Except Err Ledger :=
  match l.acc.append H prevHash with
  | .error e => .error e
  | .ok (acc', _) =>
    .ok { acc := acc', hashes := l.hashes ++ [blockHash],
          cross := l.cross ++ [recs.map (fun kv => hashLeaf H kv.2)],
          storage := recs.reverse ++ l.storage }

/-- Genesis: previous hash is the zero hash. -/
def genesis (blockHash : Hash) : Except Err Ledger :=
  commit H ⟨⟨emptyTree, some ⟨true, [], []⟩⟩, [], [], []⟩ zeroHash blockHash []

/-- Next block on the tip. -/
def addBlock (l : Ledger) (blockHash : Hash) (recs : List (List UInt8 × List UInt8)) : Except Err Ledger :=
  match l.hashes.getLast? with
  | none => .error .panic
  | some prev => commit H l prev blockHash recs

/-- A chain: genesis, then blocks `(hash, committed records)` in order. -/
def addBlocks (l : Ledger) : List (Hash × List (List UInt8 × List UInt8)) → Except Err Ledger
  | [] => .ok l
  | b :: bs => match addBlock H l b.1 b.2 with
    | .error e => .error e
    | .ok l' => addBlocks l' bs

def chain (g : Hash) (blocks : List (Hash × List (List UInt8 × List UInt8))) : Except Err Ledger :=
  match genesis H g with
  | .error e => .error e
  | .ok l => addBlocks H l blocks

/-- `executeBlock`: the cross-state root stored for (and later committed in the next header for) a block. -/
def crossRoot (hashes : List Hash) : Except Err Hash :=
  if hashes.length ≠ 0 then hashFullTree H hashes else .ok zeroHash

/-- The `BlockRoot` a header at the tip height commits: the accumulator root (size = height + 1). -/
def blockRoot (l : Ledger) : Except Err Hash := root H l.acc.tree

/-- `LedgerStoreImp.GetCrossStatesProof(height, key)`: the CURRENT storage value under `key`, proved in the
cross hashes stored under `height`. -/
def getCrossStatesProof (l : Ledger) (height : Nat) (key : List UInt8) : Except LErr (List UInt8) :=
  match l.cross[height]? with
  | none => .error .noCrossStates
  | some [] => .error .noCrossStates            -- nothing is stored for a block without records
  | some hashes =>
    match lookup key l.storage with
    | none => .error .noStorage
    | some value => match merkleLeafPath H value hashes with
      | .error e => .error (.merkle e)
      | .ok p => .ok p

/-- `Ledger.GetMerkleProof(proofHeight, rootHeight)`: block `h`'s hash is leaf `h + 1`, header `r` commits
the tree of size `r + 1`. -/
def getMerkleProof (l : Ledger) (h r : Nat) : Except LErr (List UInt8) :=
  match l.hashes[h]? with
  | none => .error .noBlock
  | some bh => match merkleInclusionLeafPath H l.acc bh (h + 1) (r + 1) with
    | .error e => .error (.merkle e)
    | .ok p => .ok p

/-- Close and reopen: the accumulator is rebuilt from the persisted (size, frontier) and the hash file. -/
def reopen (l : Ledger) : Ledger :=
  match l.acc.store with
  | none => l
  | some st => { l with acc := ⟨l.acc.tree, reopenFile (st.hashes ++ st.tail) l.acc.tree.size⟩ }

end
end Poly.Model.MerkleLedger
