/-!
# Model of the proof-of-work light client of `native/service/header_sync/eth` (C27)

State = the three key families of the contract storage: `HEADER_INDEX` (hash ⇀ header with total difficulty),
`MAIN_CHAIN` (height ⇀ hash) and `CURRENT_HEADER_HEIGHT`. `syncHeader` is one iteration of the loop of
`SyncBlockHeader`; `restructChain` is `RestructChain` exactly as written (including the lower-height branch, the stale
entries left above a lower new head, and the error exits, which happen before any write).

The header hash is a field (`Keccak256(RLP(header))` in the code; the harness passes it in), header validity
(difficulty rule, gas rules, seal — C28) is the abstract predicate `valid header parent`.
Heights are `Nat` (the code's `uint64`; the one place where `uint64` arithmetic could wrap, `si--` at zero, is the
explicit error exit of `commonAncestor`).
-/
namespace Poly.Model.PoW

/-- What the fork choice reads of a header; `rules` is everything the validity predicate needs. -/
structure Hdr (H R : Type) where
  hash : H
  parent : H
  number : Nat
  difficulty : Nat
  rules : R

/-- `HeaderWithDifficultySum`. -/
structure Entry (H R : Type) where
  hdr : Hdr H R
  td : Nat

structure Store (H R : Type) where
  index : H → Option (Entry H R)      -- HEADER_INDEX
  main : Nat → Option H               -- MAIN_CHAIN
  cur : Nat                           -- CURRENT_HEADER_HEIGHT

inductive Outcome where
  | known        -- header already stored: skipped
  | orphan       -- parent not stored: the call fails
  | badHeight    -- number ≠ parent number + 1: the call fails
  | invalid      -- a header rule fails: the call fails
  | noHead       -- the current head cannot be read: the call fails
  | appended     -- child of the head: appended to the main chain
  | reorged      -- heavier fork: main chain restructured
  | side         -- stored on a side chain
  deriving Repr, DecidableEq, Inhabited

def Outcome.failed : Outcome → Bool
  | .orphan | .badHeight | .invalid | .noHead => true
  | _ => false

section
variable {H R : Type} [DecidableEq H]

def setIndex (s : Store H R) (k : H) (e : Entry H R) : Store H R :=
  { s with index := fun x => if x = k then some e else s.index x }

/-- `appendHeader2Main`: writes `MAIN_CHAIN[height]` and sets `CURRENT_HEADER_HEIGHT = height`. -/
def appendMain (s : Store H R) (height : Nat) (h : H) : Store H R :=
  { s with main := fun n => if n = height then some h else s.main n, cur := height }

/-- `putGenesisBlockHeader`. -/
def init (g : Hdr H R) : Store H R :=
  { index := fun x => if x = g.hash then some ⟨g, g.difficulty⟩ else none
    main := fun n => if n = g.number then some g.hash else none
    cur := g.number }

/-- `GetHeaderByHeight`: fails above the current height or when the slot / the header is missing. -/
def headerByHeight (s : Store H R) (n : Nat) : Option (Entry H R) :=
  if n > s.cur then none else (s.main n).bind s.index

/-- `GetCurrentHeader`. -/
def currentHeader (s : Store H R) : Option (Entry H R) := headerByHeight s s.cur

/-- First loop of `RestructChain`: `k` parent steps from `new`, pushing the hashes passed. -/
def walkDown (s : Store H R) : Nat → Hdr H R → List H → Option (Hdr H R × List H)
  | 0, new, acc => some (new, acc)
  | k + 1, new, acc =>
    match s.index new.parent with
    | none => none
    | some e => walkDown s k e.hdr (new.hash :: acc)

/-- Second loop of `RestructChain` at equal heights `si`: while the parents differ, step both sides down
(`current` along the main chain index, `new` along parent links). At `si = 0` the decrement wraps and the height
lookup fails. -/
def commonAncestor (s : Store H R) : Nat → Hdr H R → Hdr H R → List H → Option (Nat × Hdr H R × List H)
  | 0, current, new, acc => if current.parent = new.parent then some (0, new, acc) else none
  | si + 1, current, new, acc =>
    if current.parent = new.parent then some (si + 1, new, acc)
    else
      match s.index new.parent, headerByHeight s si with
      | some e, some c => commonAncestor s si c.hdr e.hdr (new.hash :: acc)
      | _, _ => none

/-- Final loop of `RestructChain`: write the collected hashes upwards from `ti`. -/
def writeMain (s : Store H R) : Nat → List H → Store H R
  | _, [] => s
  | ti, h :: rest => writeMain (appendMain s ti h) (ti + 1) rest

/-- `RestructChain(current, new)`; every error exit precedes the first write, and the caller ignores the error. -/
def restructChain (s : Store H R) (current new : Hdr H R) : Store H R :=
  let ti := new.number
  let start : Option (Hdr H R × Nat) :=
    if current.number > ti then (headerByHeight s ti).map (fun e => (e.hdr, ti)) else some (current, current.number)
  match start with
  | none => s
  | some (cur, si) =>
    match walkDown s (ti - si) new [] with
    | none => s
    | some (new', acc) =>
      match commonAncestor s si cur new' acc with
      | none => s
      | some (si', new'', acc') => writeMain s si' (new''.hash :: acc')

/-- One header of `SyncBlockHeader`. A failed outcome aborts the whole call (the contract cache is dropped). -/
def syncHeader (valid : Hdr H R → Hdr H R → Bool) (s : Store H R) (h : Hdr H R) : Store H R × Outcome :=
  match s.index h.hash with
  | some _ => (s, .known)
  | none =>
    match s.index h.parent with
    | none => (s, .orphan)
    | some pe =>
      if h.number ≠ pe.hdr.number + 1 then (s, .badHeight)
      else if !valid h pe.hdr then (s, .invalid)
      else
        let td := pe.td + h.difficulty
        let s1 := setIndex s h.hash ⟨h, td⟩
        match currentHeader s1 with
        | none => (s, .noHead)
        | some ce =>
          if ce.hdr.hash = h.parent then (appendMain s1 h.number h.hash, .appended)
          else if td > ce.td then (restructChain s1 ce.hdr h, .reorged)
          else (s1, .side)

/-- One `SyncBlockHeader` call with a list of headers: all or nothing. -/
def syncCall (valid : Hdr H R → Hdr H R → Bool) (s : Store H R) (hs : List (Hdr H R)) : Store H R × List Outcome :=
  let rec go (cur : Store H R) (outs : List Outcome) : List (Hdr H R) → Store H R × List Outcome
    | [] => (cur, outs.reverse)
    | h :: rest =>
      let (s', o) := syncHeader valid cur h
      if o.failed then (s, (o :: outs).reverse) else go s' (o :: outs) rest
  go s [] hs

/-- The state after a history of calls. -/
def run (valid : Hdr H R → Hdr H R → Bool) (g : Hdr H R) (calls : List (List (Hdr H R))) : Store H R :=
  calls.foldl (fun s hs => (syncCall valid s hs).1) (init g)

end
end Poly.Model.PoW
