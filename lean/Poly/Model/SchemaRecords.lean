import Poly.Model.Schema
import Poly.Model.SchemaLedger
/-!
# Native-contract parameters and stored records (C04): one schema per type of the thirteen anchored files

Each entry mirrors the `Serialization` / `Deserialization` pair of the Go type with the same name: field order, count
encodings (`WriteVarUint(len)` vs `WriteUint64(len)`), allocation (`append`, `make([]T, n)`, `make([]T, 0, n)`), guards
(`AddressParseFromBytes` = length 20, `BlocksToWait ≥ 1`, `Version ≤ MAX_NATIVE_VERSION`), maps with their key order
(`sort.SliceStable` descending on the string / integer key, or on `Address.ToHexString()` = reversed bytes) and the
eof-ignoring trailing `ExtraInfo` of side-chain records. `post` is what decoding into the Go value does beyond the schema
(only `PeerPoolMap`, whose map key is a field of the item).
-/
namespace Poly.Model.SchemaRecords
open Poly.Model.Codec Poly.Model.Schema Poly.Model.SchemaLedger

abbrev str : Ty := lf .varbytes
abbrev vb : Ty := lf .varbytes
abbrev vu : Ty := lf .varuint
abbrev u8 : Ty := lf .u8
abbrev u32 : Ty := lf .u32
abbrev u64 : Ty := lf .u64
abbrev addr : Ty := lf (.fixed 20)
abbrev hash : Ty := lf (.fixed 32)
/-- `WriteVarBytes(addr[:])` / `NextVarBytes` + `AddressParseFromBytes` (length must be 20) -/
abbrev addrVar : Ty := .leaf .varbytes (.eq 20)
abbrev big : Ty := lf .bigint
abbrev bool : Ty := lf .bool

/-- `[][]byte` with a var-uint / uint64 count, built with `append` -/
def vbListV : Ty := .list { cnt := .varuint } vb
def vbList64 : Ty := .list { cnt := .u64 } vb

structure Rec where
  name : String
  ty : Ty
  post : ty.Val → ty.Val := id

-- cross_chain_manager/common/param.go
def makeTxParam : Ty := vb ⊗ vb ⊗ vb ⊗ u64 ⊗ vb ⊗ str ⊗ vb
def initRedeemScriptParam : Ty := str
def entranceParam : Ty := u64 ⊗ u32 ⊗ vb ⊗ vb ⊗ vb ⊗ vb
def makeTxParamWithSender : Ty := addr ⊗ makeTxParam
def multiSignParam : Ty := u64 ⊗ str ⊗ vb ⊗ str ⊗ vbList64
def toMerkleValue : Ty := vb ⊗ u64 ⊗ makeTxParam
def blackChainParam : Ty := vu
-- header_sync/common/param.go
def syncGenesisHeaderParam : Ty := u64 ⊗ vb
def syncBlockHeaderParam : Ty := u64 ⊗ addr ⊗ vbList64
def syncCrossChainMsgParam : Ty := u64 ⊗ addr ⊗ vbList64
-- governance/node_manager/param.go, states.go
def configuration : Ty := u32 ⊗ u32 ⊗ u32 ⊗ u32
def registerPeerParam : Ty := str ⊗ addrVar
def peerParam : Ty := str ⊗ addrVar
def peerListParam : Ty := .list { cnt := .varuint } str ⊗ addrVar
def updateConfigParam : Ty := configuration
def status : Ty := u8
def blackListItem : Ty := str ⊗ addrVar
def peerPoolItem : Ty := u32 ⊗ str ⊗ addrVar ⊗ u8
def peerPoolMap : Ty := .list { cnt := .varuint } peerPoolItem
def governanceView : Ty := u32 ⊗ u32 ⊗ hash
def consensusSigns : Ty := .map .varuint .varbytes (.eq 20) bool .descRev
-- governance/side_chain_manager/param.go, states.go
def registerSideChainParam : Ty := addrVar ⊗ vu ⊗ vu ⊗ str ⊗ .leaf .varuint (.ge 1) ⊗ vb ⊗ lf .optBytes
def chainidParam : Ty := vu ⊗ addrVar
def registerRedeemParam : Ty := vu ⊗ vu ⊗ vb ⊗ vu ⊗ vb ⊗ vbListV
def btcTxParamDetial : Ty := vu ⊗ vu ⊗ vu
def btcTxParam : Ty := vb ⊗ vu ⊗ vbListV ⊗ btcTxParamDetial
def assetMap : Ty := .map .varuint .varuint .none vb .desc
def registerAssetParam : Ty := addr ⊗ vu ⊗ assetMap ⊗ assetMap
def assetBind : Ty := assetMap ⊗ assetMap
def updateFeeParam : Ty := addr ⊗ u64 ⊗ u64 ⊗ big
def sideChain : Ty := addrVar ⊗ vu ⊗ vu ⊗ str ⊗ vu ⊗ vb ⊗ lf .optBytes
def bindSignInfo : Ty := .map .varuint .varbytes .none vb .desc
def contractBinded : Ty := vb ⊗ u64
def fee : Ty := u64 ⊗ big
def feeInfo : Ty := u32 ⊗ .map .varuint (.fixed 20) .none big .descRev
def rippleExtraInfo : Ty := addr ⊗ u64 ⊗ u64 ⊗ u64 ⊗ vbListV ⊗ big
-- governance/relayer_manager/param.go, neo3_state_manager/param.go
def relayerListParam : Ty := .list { cnt := .varuint } addrVar ⊗ addrVar
def approveRelayerParam : Ty := vu ⊗ addrVar
def stateValidatorListParam : Ty := .list { cnt := .varuint } str ⊗ addrVar
def approveStateValidatorParam : Ty := vu ⊗ addrVar
-- governance/signature_manager/states.go, cross_chain_manager/consensus_vote/states.go
def sigInfo : Ty := bool ⊗ .map .u64 .varbytes .none vb .desc
def voteInfo : Ty := bool ⊗ .map .u64 .varbytes .none bool .desc
-- cross_chain_manager/btc/states.go
def btcProof : Ty := vb ⊗ vb ⊗ u32 ⊗ u64
def outPoint : Ty := vb ⊗ u32
def utxo : Ty := outPoint ⊗ u32 ⊗ u64 ⊗ vb
def utxos : Ty := .list { cnt := .u64 } utxo
def multiSignInfo : Ty := .map .u64 .varbytes .none vbList64 .desc
def args : Ty := u64 ⊗ lf .i64 ⊗ vb
def btcFromInfo : Ty := vb ⊗ u64
-- native/states/contract.go, core/states/storage_item.go
def contractInvokeParam : Ty := .leaf .u8 (.le 0) ⊗ addr ⊗ vb ⊗ vb
def storageItem : Ty := u8 ⊗ vb

/-- `PeerPoolMap.Deserialization` stores every item under `item.PeerPubkey`: last duplicate wins; the canonical value lists
the items by descending pubkey (the encoder's `sort.SliceStable`). -/
def peerPoolPost (items : peerPoolMap.Val) : peerPoolMap.Val :=
  (canonMap (κ := peerPoolItem.Val) (ν := Unit) (fun it => it.2.1) (items.map fun it => (it, ()))).map (·.1)

def table : List Rec := [
  { name := "InitRedeemScriptParam", ty := initRedeemScriptParam },
  { name := "EntranceParam", ty := entranceParam },
  { name := "MakeTxParamWithSender", ty := makeTxParamWithSender },
  { name := "MakeTxParam", ty := makeTxParam },
  { name := "MultiSignParam", ty := multiSignParam },
  { name := "ToMerkleValue", ty := toMerkleValue },
  { name := "BlackChainParam", ty := blackChainParam },
  { name := "SyncGenesisHeaderParam", ty := syncGenesisHeaderParam },
  { name := "SyncBlockHeaderParam", ty := syncBlockHeaderParam },
  { name := "SyncCrossChainMsgParam", ty := syncCrossChainMsgParam },
  { name := "RegisterPeerParam", ty := registerPeerParam },
  { name := "PeerParam", ty := peerParam },
  { name := "PeerListParam", ty := peerListParam },
  { name := "UpdateConfigParam", ty := updateConfigParam },
  { name := "Status", ty := status },
  { name := "BlackListItem", ty := blackListItem },
  { name := "PeerPoolMap", ty := peerPoolMap, post := peerPoolPost },
  { name := "PeerPoolItem", ty := peerPoolItem },
  { name := "GovernanceView", ty := governanceView },
  { name := "ConsensusSigns", ty := consensusSigns },
  { name := "Configuration", ty := configuration },
  { name := "RegisterSideChainParam", ty := registerSideChainParam },
  { name := "ChainidParam", ty := chainidParam },
  { name := "RegisterRedeemParam", ty := registerRedeemParam },
  { name := "BtcTxParamDetial", ty := btcTxParamDetial },
  { name := "BtcTxParam", ty := btcTxParam },
  { name := "RegisterAssetParam", ty := registerAssetParam },
  { name := "AssetBind", ty := assetBind },
  { name := "UpdateFeeParam", ty := updateFeeParam },
  { name := "SideChain", ty := sideChain },
  { name := "BindSignInfo", ty := bindSignInfo },
  { name := "ContractBinded", ty := contractBinded },
  { name := "Fee", ty := fee },
  { name := "FeeInfo", ty := feeInfo },
  { name := "RippleExtraInfo", ty := rippleExtraInfo },
  { name := "RelayerListParam", ty := relayerListParam },
  { name := "ApproveRelayerParam", ty := approveRelayerParam },
  { name := "StateValidatorListParam", ty := stateValidatorListParam },
  { name := "ApproveStateValidatorParam", ty := approveStateValidatorParam },
  { name := "SigInfo", ty := sigInfo },
  { name := "VoteInfo", ty := voteInfo },
  { name := "BtcProof", ty := btcProof },
  { name := "Utxos", ty := utxos },
  { name := "Utxo", ty := utxo },
  { name := "OutPoint", ty := outPoint },
  { name := "MultiSignInfo", ty := multiSignInfo },
  { name := "Args", ty := args },
  { name := "BtcFromInfo", ty := btcFromInfo },
  { name := "ContractInvokeParam", ty := contractInvokeParam },
  { name := "StorageItem", ty := storageItem } ]

def find (name : String) : Option Rec := table.find? (·.name == name)

end Poly.Model.SchemaRecords
