import Poly.Generated.EthConsts
/-!
# Model of the header hash pre-image (C28): RLP of the header fields in the order of the Go struct

`Header.Hash()` is `Keccak256(rlp.Encode(header))` over the struct fields in declaration order, a trailing
`rlp:"optional"` field being left out when nil; `HashHeader` (the ethash seal hash) is the RLP list of an explicit
field slice plus the base fee when present. The field orders are **generated** from the Go source
(`EthConsts.headerFields`, `EthConsts.sealFields`); the RLP item encoders below follow the Yellow Paper, Appendix B.
Keccak-256 itself is outside the model (the harness applies it to the model's pre-image).
-/
namespace Poly.Model.EthHeaderRlp
open Poly.Generated

abbrev Bytes := List UInt8

/-- Big-endian bytes of `n` without leading zeros (`BE` of the Yellow Paper; `0 ↦ []`); structural on a fuel argument
(`n` itself is more than enough: every step divides by 256). -/
def natBEAux : Nat → Nat → Bytes
  | 0, _ => []
  | fuel + 1, n => if n = 0 then [] else natBEAux fuel (n / 256) ++ [UInt8.ofNat (n % 256)]

def natBE (n : Nat) : Bytes := natBEAux n n

/-- Length prefix: `base + len` below 56, else `base + 55 + ‖BE(len)‖` followed by `BE(len)`. -/
def lenPrefix (base : Nat) (len : Nat) : Bytes :=
  if len < 56 then [UInt8.ofNat (base + len)]
  else UInt8.ofNat (base + 55 + (natBE len).length) :: natBE len

/-- `R_b`: a byte string. -/
def rlpBytes (b : Bytes) : Bytes :=
  match b with
  | [x] => if x < 128 then [x] else lenPrefix 128 1 ++ b
  | _ => lenPrefix 128 b.length ++ b

/-- A non-negative integer is the RLP of its minimal big-endian bytes. -/
def rlpNat (n : Nat) : Bytes := rlpBytes (natBE n)

/-- `R_l`: a list of already encoded items. -/
def rlpList (items : List Bytes) : Bytes :=
  let payload := items.flatten
  lenPrefix 192 payload.length ++ payload

/-- All fields of the Go `Header` struct. Fixed-size byte arrays are byte strings of that size. -/
structure FullHdr where
  parentHash  : Bytes
  uncleHash   : Bytes
  coinbase    : Bytes
  root        : Bytes
  txHash      : Bytes
  receiptHash : Bytes
  bloom       : Bytes
  difficulty  : Nat
  number      : Nat
  gasLimit    : Nat
  gasUsed     : Nat
  time        : Nat
  extra       : Bytes
  mixDigest   : Bytes
  nonce       : Bytes
  baseFee     : Option Nat
  deriving Repr, Inhabited

/-- The encoded item of a named field; `some none` = a nil optional pointer; `none` = unknown field name. -/
def fieldItem (h : FullHdr) (name : String) : Option (Option Bytes) :=
  if name = "ParentHash" then some (some (rlpBytes h.parentHash))
  else if name = "UncleHash" then some (some (rlpBytes h.uncleHash))
  else if name = "Coinbase" then some (some (rlpBytes h.coinbase))
  else if name = "Root" then some (some (rlpBytes h.root))
  else if name = "TxHash" then some (some (rlpBytes h.txHash))
  else if name = "ReceiptHash" then some (some (rlpBytes h.receiptHash))
  else if name = "Bloom" then some (some (rlpBytes h.bloom))
  else if name = "Difficulty" then some (some (rlpNat h.difficulty))
  else if name = "Number" then some (some (rlpNat h.number))
  else if name = "GasLimit" then some (some (rlpNat h.gasLimit))
  else if name = "GasUsed" then some (some (rlpNat h.gasUsed))
  else if name = "Time" then some (some (rlpNat h.time))
  else if name = "Extra" then some (some (rlpBytes h.extra))
  else if name = "MixDigest" then some (some (rlpBytes h.mixDigest))
  else if name = "Nonce" then some (some (rlpBytes h.nonce))
  else if name = "BaseFee" then some (h.baseFee.map rlpNat)
  else none

/-- Items of a field list: mandatory fields always, an optional field only when present (the single trailing
optional field of `Header`; for `HashHeader` the explicit `if header.BaseFee != nil` append). -/
def items (h : FullHdr) : List (String × Bool) → Option (List Bytes)
  | [] => some []
  | (name, optional) :: rest =>
    match fieldItem h name, items h rest with
    | some (some it), some r => some (it :: r)
    | some none, some r => if optional then some r else none   -- a nil mandatory *big.Int does not occur (JSON-required)
    | _, _ => none

/-- Pre-image of `Header.Hash()`. -/
def headerRlp (h : FullHdr) : Option Bytes := (items h EthConsts.headerFields).map rlpList

/-- Pre-image of `HashHeader(header)` (seal hash). -/
def sealRlp (h : FullHdr) : Option Bytes := (items h EthConsts.sealFields).map rlpList

end Poly.Model.EthHeaderRlp
