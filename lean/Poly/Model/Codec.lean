/-!
# Binary codec primitives (C01): model of `common/zero_copy_sink.go`, `common/zero_copy_source.go`,
`common/safeMath.go` and `common/serialization/serialize.go`.

Three layers, all executable and core-only:

* **writers** `wU8 … wVarBytes` — the bytes one `ZeroCopySink.WriteX` call appends (slice growth is list append),
  plus `Sink.*`, the reserve-nine-bytes / `BackUp` mechanism of `WriteVarUint` modelled on the buffer;
* **machine readers** `Src` / `nextX` — `ZeroCopySource` with its `off : UInt64`, the `SafeAdd` overflow guard,
  Go slice-bounds panics as the outcome `none`, `BackUp`, `Skip`, `Len`, `Pos`;
* **pure readers** `P.nextX : Bytes → α × Bytes × Bool` on the unread remainder (what the schema layer composes) —
  `Poly.Proofs.Codec` shows the machine readers refine them whenever `off ≤ len`;
* **streaming codec** `Stream.*` — `serialization.ReadX/WriteX` over an `io.Reader`, with the error classes
  (`io.EOF`, `io.ErrUnexpectedEOF`, `ErrEof`, `ErrRange`) and the post-error reader position.
-/
namespace Poly.Model.Codec

abbrev Bytes := List UInt8

/-! ## Little endian -/

/-- `k` little-endian bytes of `v` (i.e. of `v mod 256^k`): `binary.LittleEndian.PutUintN`. -/
def leN : Nat → Nat → Bytes
  | 0, _ => []
  | k + 1, v => UInt8.ofNat (v % 256) :: leN k (v / 256)

/-- `binary.LittleEndian.UintN` of a byte string. -/
def ofLe : Bytes → Nat
  | [] => 0
  | b :: bs => b.toNat + 256 * ofLe bs

/-! ## Writers (`ZeroCopySink`) -/

def wU8 (v : UInt8) : Bytes := [v]
def wU16 (v : UInt16) : Bytes := leN 2 v.toNat
def wU32 (v : UInt32) : Bytes := leN 4 v.toNat
def wU64 (v : UInt64) : Bytes := leN 8 v.toNat
def wI16 (v : Int16) : Bytes := wU16 v.toUInt16
def wI32 (v : Int32) : Bytes := wU32 v.toUInt32
def wI64 (v : Int64) : Bytes := wU64 v.toUInt64
def wBool (b : Bool) : Bytes := [if b then 1 else 0]
/-- `WriteBytes`, `WriteAddress`, `WriteHash`: the raw bytes. -/
def wBytes (b : Bytes) : Bytes := b

/-- `WriteVarUint`: 1 / 3 / 5 / 9 bytes by range. -/
def wVarUint (v : UInt64) : Bytes :=
  if v < 0xFD then [v.toUInt8]
  else if v ≤ 0xFFFF then 0xFD :: wU16 v.toUInt16
  else if v ≤ 0xFFFFFFFF then 0xFE :: wU32 v.toUInt32
  else 0xFF :: wU64 v

/-- the `size` result of `WriteVarUint` -/
def varUintSize (v : UInt64) : Nat :=
  if v < 0xFD then 1 else if v ≤ 0xFFFF then 3 else if v ≤ 0xFFFFFFFF then 5 else 9

/-- `WriteVarBytes` / `WriteString`: `uint64(len(data))` as var-uint, then the data. -/
def wVarBytes (b : Bytes) : Bytes := wVarUint (UInt64.ofNat b.length) ++ b

/-! ### The sink mechanism of `WriteVarUint`: reserve 9 bytes, fill, `BackUp(9 - size)` -/
namespace Sink

/-- `NextBytes(n)`: the buffer grows by `n` bytes (their content is stale memory; every caller overwrites them or
backs up over them — modelled as zeros). -/
def nextBytes (buf : Bytes) (n : Nat) : Bytes := buf ++ List.replicate n 0

/-- `BackUp(n)`: `buf[:len-n]` — a negative length is a Go slice-bounds panic (`none`). -/
def backUp (buf : Bytes) (n : Nat) : Option Bytes := if n ≤ buf.length then some (buf.take (buf.length - n)) else none

/-- overwrite `data` at position `at` -/
def put (buf : Bytes) (pos : Nat) (data : Bytes) : Bytes := buf.take pos ++ data ++ buf.drop (pos + data.length)

def writeVarUint (buf : Bytes) (v : UInt64) : Option (Bytes × Nat) :=
  let start := buf.length
  let b := nextBytes buf 9
  let (b, size) :=
    if v < 0xFD then (put b start [v.toUInt8], 1)
    else if v ≤ 0xFFFF then (put b start (0xFD :: wU16 v.toUInt16), 3)
    else if v ≤ 0xFFFFFFFF then (put b start (0xFE :: wU32 v.toUInt32), 5)
    else (put b start (0xFF :: wU64 v), 9)
  (backUp b (9 - size)).map fun b => (b, size)

end Sink

/-! ## `safeMath.go` -/

def safeAdd (x y : UInt64) : UInt64 × Bool := (x + y, y > 0xFFFFFFFFFFFFFFFF - x)
def safeSub (x y : UInt64) : UInt64 × Bool := (x - y, x < y)
def safeMul (x y : UInt64) : UInt64 × Bool :=
  if x == 0 || y == 0 then (0, false) else (x * y, y > 0xFFFFFFFFFFFFFFFF / x)

/-! ## Machine readers (`ZeroCopySource`) -/

structure Src where
  s : Bytes
  off : UInt64
deriving Repr, DecidableEq

/-- `uint64(len(self.s))` -/
def Src.size (x : Src) : UInt64 := UInt64.ofNat x.s.length

/-- `Len()` -/
def Src.len (x : Src) : UInt64 := if x.off ≥ x.size then 0 else x.size - x.off

/-- Result of a reader: value, new source, eof flag; `none` is a Go runtime panic (slice bounds / index). -/
abbrev R (α : Type) := Option (α × Src × Bool)

/-- `NextBytes(n)`: `end, overflow := SafeAdd(off, n); if overflow || end > m { end = m; eof = true };
data = s[off:end]; off = end`. The slice expression panics unless `off ≤ end ≤ len`. -/
def nextBytes (x : Src) (n : UInt64) : R Bytes :=
  let m := x.size
  let (e0, ovf) := safeAdd x.off n
  let eof := ovf || e0 > m
  let e := if eof then m else e0
  if x.off.toNat ≤ e.toNat ∧ e.toNat ≤ x.s.length then
    some ((x.s.drop x.off.toNat).take (e.toNat - x.off.toNat), { x with off := e }, eof)
  else none

/-- `Skip(n)` -/
def skip (x : Src) (n : UInt64) : Src × Bool :=
  let m := x.size
  let (e0, ovf) := safeAdd x.off n
  let eof := ovf || e0 > m
  ({ x with off := if eof then m else e0 }, eof)

/-- `NextByte()`: `if off >= len { return 0, true }; b := s[off]; off++`. -/
def nextByte (x : Src) : R UInt8 :=
  if x.off ≥ x.size then some (0, x, true)
  else match x.s[x.off.toNat]? with
    | some b => some (b, { x with off := x.off + 1 }, false)
    | none => none

def nextU8 (x : Src) : R UInt8 := nextByte x

/-- `NextBool()`: a byte other than 0/1 is reported as eof (after consuming it). -/
def nextBool (x : Src) : R Bool :=
  (nextByte x).map fun (v, x', eof) =>
    if v == 0 then (false, x', eof) else if v == 1 then (true, x', eof) else (false, x', true)

/-- `BackUp(n)`: `off -= n` (wraps) -/
def backUp (x : Src) (n : UInt64) : Src := { x with off := x.off - n }

def nextU16 (x : Src) : R UInt16 :=
  (nextBytes x 2).map fun (buf, x', eof) => if eof then (0, x', true) else (UInt16.ofNat (ofLe buf), x', false)

def nextU32 (x : Src) : R UInt32 :=
  (nextBytes x 4).map fun (buf, x', eof) => if eof then (0, x', true) else (UInt32.ofNat (ofLe buf), x', false)

def nextU64 (x : Src) : R UInt64 :=
  (nextBytes x 8).map fun (buf, x', eof) => if eof then (0, x', true) else (UInt64.ofNat (ofLe buf), x', false)

def nextI16 (x : Src) : R Int16 := (nextU16 x).map fun (v, x', eof) => (v.toInt16, x', eof)
def nextI32 (x : Src) : R Int32 := (nextU32 x).map fun (v, x', eof) => (v.toInt32, x', eof)
def nextI64 (x : Src) : R Int64 := (nextU64 x).map fun (v, x', eof) => (v.toInt64, x', eof)

/-- `NextVarUint()`: any of the four forms is accepted whatever the value (non-minimal encodings decode). -/
def nextVarUint (x : Src) : R UInt64 :=
  match nextByte x with
  | none => none
  | some (fb, x1, eof) =>
    if eof then some (0, x1, true)
    else if fb == 0xFD then (nextU16 x1).map fun (v, x', e) => if e then (0, x', true) else (v.toUInt64, x', false)
    else if fb == 0xFE then (nextU32 x1).map fun (v, x', e) => if e then (0, x', true) else (v.toUInt64, x', false)
    else if fb == 0xFF then (nextU64 x1).map fun (v, x', e) => if e then (0, x', true) else (v, x', false)
    else some (fb.toUInt64, x1, false)

/-- `NextVarBytes()`: on a failed count nothing more is read; otherwise `NextBytes(count)` (short data ⇒ eof, and
the short slice is returned). -/
def nextVarBytes (x : Src) : R Bytes :=
  match nextVarUint x with
  | none => none
  | some (count, x1, eof) => if eof then some ([], x1, true) else nextBytes x1 count

def nextString (x : Src) : R Bytes := nextVarBytes x

/-- `NextAddress()` / `NextHash()`: a fixed-size array; zero when eof. -/
def nextFixed (n : Nat) (x : Src) : R Bytes :=
  (nextBytes x (UInt64.ofNat n)).map fun (buf, x', eof) => if eof then (List.replicate n 0, x', true) else (buf, x', false)

def nextAddress := nextFixed 20
def nextHash := nextFixed 32

/-! ## Pure readers on the unread remainder -/
namespace P

/-- Result of a pure reader: value, remainder, eof flag. -/
abbrev R (α : Type) := α × Bytes × Bool

def nextBytes (n : Nat) (bs : Bytes) : R Bytes :=
  if n ≤ bs.length then (bs.take n, bs.drop n, false) else (bs, [], true)

/-- single pass `take`/`drop` that also detects a short input (execution only; equal to `nextBytes` by `nextBytes_eq_impl`) -/
def takeExact : Nat → Bytes → Bytes → Option (Bytes × Bytes)
  | 0, bs, acc => some (acc.reverse, bs)
  | _ + 1, [], _ => none
  | n + 1, b :: bs, acc => takeExact n bs (b :: acc)

def nextBytesImpl (n : Nat) (bs : Bytes) : R Bytes :=
  match takeExact n bs [] with
  | some (a, r) => (a, r, false)
  | none => (bs, [], true)

theorem takeExact_spec (n : Nat) (bs acc : Bytes) :
    takeExact n bs acc = if n ≤ bs.length then some (acc.reverse ++ bs.take n, bs.drop n) else none := by
  induction n generalizing bs acc with
  | zero => simp [takeExact]
  | succ n ih =>
    cases bs with
    | nil => simp [takeExact]
    | cons b bs =>
      simp only [takeExact, ih, List.length_cons, Nat.add_le_add_iff_right, List.reverse_cons, List.take_succ_cons,
        List.drop_succ_cons, List.append_assoc, List.singleton_append]

@[csimp] theorem nextBytes_eq_impl : @nextBytes = @nextBytesImpl := by
  funext n bs
  simp only [nextBytes, nextBytesImpl, takeExact_spec]
  split <;> simp

def nextByte : Bytes → R UInt8
  | [] => (0, [], true)
  | b :: r => (b, r, false)

def nextBool (bs : Bytes) : R Bool :=
  let p := nextByte bs
  if p.1 == 0 then (false, p.2.1, p.2.2) else if p.1 == 1 then (true, p.2.1, p.2.2) else (false, p.2.1, true)

def nextU16 (bs : Bytes) : R UInt16 :=
  let p := nextBytes 2 bs
  if p.2.2 then (0, p.2.1, true) else (UInt16.ofNat (ofLe p.1), p.2.1, false)

def nextU32 (bs : Bytes) : R UInt32 :=
  let p := nextBytes 4 bs
  if p.2.2 then (0, p.2.1, true) else (UInt32.ofNat (ofLe p.1), p.2.1, false)

def nextU64 (bs : Bytes) : R UInt64 :=
  let p := nextBytes 8 bs
  if p.2.2 then (0, p.2.1, true) else (UInt64.ofNat (ofLe p.1), p.2.1, false)

def nextI16 (bs : Bytes) : R Int16 := let p := nextU16 bs; (p.1.toInt16, p.2.1, p.2.2)
def nextI32 (bs : Bytes) : R Int32 := let p := nextU32 bs; (p.1.toInt32, p.2.1, p.2.2)
def nextI64 (bs : Bytes) : R Int64 := let p := nextU64 bs; (p.1.toInt64, p.2.1, p.2.2)

def nextVarUint (bs : Bytes) : R UInt64 :=
  let p := nextByte bs
  if p.2.2 then (0, p.2.1, true)
  else if p.1 == 0xFD then
    let q := nextU16 p.2.1
    if q.2.2 then (0, q.2.1, true) else (q.1.toUInt64, q.2.1, false)
  else if p.1 == 0xFE then
    let q := nextU32 p.2.1
    if q.2.2 then (0, q.2.1, true) else (q.1.toUInt64, q.2.1, false)
  else if p.1 == 0xFF then
    let q := nextU64 p.2.1
    if q.2.2 then (0, q.2.1, true) else (q.1, q.2.1, false)
  else (p.1.toUInt64, p.2.1, false)

def nextVarBytes (bs : Bytes) : R Bytes :=
  let p := nextVarUint bs
  if p.2.2 then ([], p.2.1, true) else nextBytes p.1.toNat p.2.1

def nextFixed (n : Nat) (bs : Bytes) : R Bytes :=
  let p := nextBytes n bs
  if p.2.2 then (List.replicate n 0, p.2.1, true) else (p.1, p.2.1, false)

end P

/-! ## Streaming codec (`common/serialization`) over an `io.Reader` holding the bytes `bs` -/
namespace Stream

inductive Err
  | eof      -- io.EOF
  | ueof     -- io.ErrUnexpectedEOF
  | errEof   -- serialization.ErrEof
  | range    -- serialization.ErrRange
deriving Repr, DecidableEq

def Err.name : Err → String
  | .eof => "eof" | .ueof => "ueof" | .errEof => "erreof" | .range => "range"

/-- Result and the reader's remaining bytes (also after an error). -/
abbrev R (α : Type) := Except Err α × Bytes

/-- `io.ReadFull(reader, p)` with `len(p) = n`. -/
def readFull (n : Nat) (bs : Bytes) : R Bytes :=
  if n = 0 then (.ok [], bs)
  else if bs.isEmpty then (.error .eof, [])
  else if bs.length < n then (.error .ueof, [])
  else (.ok (bs.take n), bs.drop n)

/-- writers: identical byte layout to the sink (proved in `Poly.Proofs.Codec`) -/
def wU8 (v : UInt8) : Bytes := [v]
def wU16 (v : UInt16) : Bytes := leN 2 v.toNat
def wU32 (v : UInt32) : Bytes := leN 4 v.toNat
def wU64 (v : UInt64) : Bytes := leN 8 v.toNat
/-- `binary.Write(w, LittleEndian, bool)` -/
def wBool (b : Bool) : Bytes := [if b then 1 else 0]
def wVarUint (v : UInt64) : Bytes :=
  if v < 0xFD then [v.toUInt8]
  else if v ≤ 0xFFFF then 0xFD :: leN 2 v.toUInt16.toNat
  else if v ≤ 0xFFFFFFFF then 0xFE :: leN 4 v.toUInt32.toNat
  else 0xFF :: leN 8 v.toNat
def wVarBytes (b : Bytes) : Bytes := wVarUint (UInt64.ofNat b.length) ++ b

/-- `ReadUintN`: every failure is `ErrEof`. -/
def readUintN (n : Nat) (bs : Bytes) : R Nat :=
  match readFull n bs with
  | (.ok p, r) => (.ok (ofLe p), r)
  | (.error _, r) => (.error .errEof, r)

def readU8 (bs : Bytes) : R UInt8 := match readUintN 1 bs with | (.ok v, r) => (.ok (UInt8.ofNat v), r) | (.error e, r) => (.error e, r)
def readU16 (bs : Bytes) : R UInt16 := match readUintN 2 bs with | (.ok v, r) => (.ok (UInt16.ofNat v), r) | (.error e, r) => (.error e, r)
def readU32 (bs : Bytes) : R UInt32 := match readUintN 4 bs with | (.ok v, r) => (.ok (UInt32.ofNat v), r) | (.error e, r) => (.error e, r)
def readU64 (bs : Bytes) : R UInt64 := match readUintN 8 bs with | (.ok v, r) => (.ok (UInt64.ofNat v), r) | (.error e, r) => (.error e, r)

/-- `ReadVarUint(reader, maxint)`; `maxint = 0` means no limit. The underlying `io.ReadFull` errors pass through. -/
def readVarUint (maxint : UInt64) (bs : Bytes) : R UInt64 :=
  let maxint := if maxint == 0 then 0xFFFFFFFFFFFFFFFF else maxint
  match readFull 1 bs with
  | (.error e, r) => (.error e, r)
  | (.ok fb, r1) =>
    let body (n : Nat) : R UInt64 :=
      match readFull n r1 with
      | (.error e, r) => (.error e, r)
      | (.ok p, r) => let res := UInt64.ofNat (ofLe p); if res > maxint then (.error .range, r) else (.ok res, r)
    let b := UInt8.ofNat (ofLe fb)
    if b == 0xFD then body 2
    else if b == 0xFE then body 4
    else if b == 0xFF then body 8
    else let res := b.toUInt64; if res > maxint then (.error .range, r1) else (.ok res, r1)

/-- `byteXReader(reader, x)`: `x = 0` → nil; below 2 MiB `make` + `io.ReadFull`; otherwise
`io.LimitReader(reader, int64(x))` drained into a buffer, accepted iff exactly `int64(x)` bytes arrived. -/
def byteXReader (x : UInt64) (bs : Bytes) : R Bytes :=
  if x == 0 then (.ok [], bs)
  else if x < 2 * 1024 * 1024 then readFull x.toNat bs
  else if x ≥ 0x8000000000000000 then (.error .errEof, bs)       -- int64(x) < 0: the limited reader yields nothing
  else if x.toNat ≤ bs.length then (.ok (bs.take x.toNat), bs.drop x.toNat)
  else (.error .errEof, [])

def readVarBytes (bs : Bytes) : R Bytes :=
  match readVarUint 0 bs with
  | (.error e, r) => (.error e, r)
  | (.ok n, r) => byteXReader n r

/-- `ReadBool`: `binary.Read` of one byte, any non-zero byte is `true`. -/
def readBool (bs : Bytes) : R Bool :=
  match readFull 1 bs with
  | (.error e, r) => (.error e, r)
  | (.ok p, r) => (.ok (ofLe p != 0), r)

/-- `ReadByte` goes through `byteXReader(reader, 1)`. -/
def readByte (bs : Bytes) : R UInt8 :=
  match byteXReader 1 bs with
  | (.error e, r) => (.error e, r)
  | (.ok p, r) => (.ok (UInt8.ofNat (ofLe p)), r)

/-- `ReadHash` / `ReadAddress`: `byteXReader(reader, n)` then a length check that cannot fail. -/
def readFixed (n : Nat) (bs : Bytes) : R Bytes := byteXReader (UInt64.ofNat n) bs

end Stream

end Poly.Model.Codec
