/-
Model of `common.ComputeMerkleRoot` (common/merkle_tree.go): Bitcoin-style Merkle root computed level by
level IN PLACE over the argument slice, and the textbook reference it must equal (C03).
Hashes are byte lists; the hash function `H` is a parameter (SHA-256 in the driver, arbitrary in theorems).
-/
namespace Poly.Model.BtcMerkle

abbrev Hash := List UInt8

def zeroHash : Hash := List.replicate 32 0

section
variable (H : List UInt8 → List UInt8)

/-- Double hash of the concatenation, as the loop body does with `sha.Write; sha.Write; Sum; Write; Sum`. -/
def h2 (a b : Hash) : Hash := H (H (a ++ b))

/-! ### Reference: pair adjacent nodes, an odd last node is paired with itself -/

def refLevel : List Hash → List Hash
  | [] => []
  | [a] => [h2 H a a]
  | a :: b :: r => h2 H a b :: refLevel r

theorem refLevel_length (hs : List Hash) : (refLevel H hs).length = (hs.length + 1) / 2 := by
  fun_induction refLevel H hs <;> simp_all <;> omega

def refRoot (hs : List Hash) : Hash :=
  match hs with
  | [] => zeroHash
  | [a] => a
  | a :: b :: r => refRoot (refLevel H (a :: b :: r))
termination_by hs.length
decreasing_by simp [refLevel_length]; omega

/-! ### The code: one level computed in place -/

/-- `hashes[i] = H(H(hashes[2i] ++ hashes[2i+1]))` written into the same slice. -/
def stepPair (hs : List Hash) (i : Nat) : List Hash :=
  hs.set i (h2 H (hs[2 * i]?.getD []) (hs[2 * i + 1]?.getD []))

def inplaceLevel (hs : List Hash) : List Hash :=
  let n := hs.length / 2
  let hs1 := (List.range n).foldl (stepPair H) hs
  if hs.length = 2 * n + 1 then
    (hs1.set n (h2 H (hs1[2 * n]?.getD []) (hs1[2 * n]?.getD []))).take (n + 1)
  else hs1.take n

theorem inplaceLevel_length (hs : List Hash) : (inplaceLevel H hs).length = (hs.length + 1) / 2 := by
  have hl : ∀ (l : List Nat) (xs : List Hash), (l.foldl (stepPair H) xs).length = xs.length := by
    intro l; induction l with
    | nil => intro xs; rfl
    | cons a l ih => intro xs; simp [List.foldl, ih, stepPair]
  unfold inplaceLevel
  simp only
  split <;> simp [hl] <;> omega

def btcRoot (hs : List Hash) : Hash :=
  match hs with
  | [] => zeroHash
  | [a] => a
  | a :: b :: r => btcRoot (inplaceLevel H (a :: b :: r))
termination_by hs.length
decreasing_by simp [inplaceLevel_length]; omega

end
end Poly.Model.BtcMerkle
