import Poly.Model.PoW
import Poly.Model.EthHeaderRlp
/-!
# Model of the EVM-family deposit proof check (C23): `verifyFromEthTx` of `cross_chain_manager/eth`

The decision logic as written: confirmation arithmetic in `uint32` / `uint64`, canonical header lookup through the
light client's main-chain index (the C27 store), proof shape (exactly one storage proof), address equality with the
registered cross-chain-manager contract, the account proof, the account RLP comparison, the storage proof,
`CheckProofResult` (RLP-decoded storage value left-padded to 32 bytes = Keccak-256 of the submitted message) and the
decoding of the message.

External functions are parameters: `K` is Keccak-256, `vp root key nodes` is go-ethereum's `trie.VerifyProof`
(`err` = error, `absent` = `(nil, nil)`: the proof shows the key is not in the trie, `val v`). The string helpers of the
code (`Replace0x`, `common.Hex2Bytes`, `common.HexToHash`, `big.Int.SetString(_, 16)`), go-ethereum's RLP of the
account record and `rlp.DecodeBytes` into a byte string are modelled.
-/
namespace Poly.Model.EthDeposit
open Poly.Model.PoW Poly.Model.EthHeaderRlp

/-- Result of `trie.VerifyProof`. -/
inductive VpRes where
  | err
  | absent
  | val (v : Bytes)
  deriving Repr, DecidableEq, Inhabited

structure StorageProof where
  key : String
  proof : List String
  deriving Repr, Inhabited

/-- `ETHProof` after a successful `json.Unmarshal` (the `value` of a storage proof is never read). -/
structure EthProof where
  address : String
  balance : String
  codeHash : String
  nonce : String
  storageHash : String
  accountProof : List String
  storageProofs : List StorageProof
  deriving Repr, Inhabited

/-- `MakeTxParam`. -/
structure TxParam where
  txHash : Bytes
  crossChainID : Bytes
  fromContract : Bytes
  toChainID : Nat
  toContract : Bytes
  method : Bytes
  args : Bytes
  deriving Repr, DecidableEq, Inhabited

inductive Reject where
  | noHead          -- GetCurrentHeader fails
  | notConfirmed    -- "transaction is not confirmed"
  | noHeader        -- GetHeaderByHeight fails
  | json            -- proof does not unmarshal
  | format          -- not exactly one storage proof
  | address         -- proof address ≠ registered CCMC address
  | acctProof       -- account proof does not verify (error)
  | number          -- nonce / balance not a base-16 integer
  | rlp             -- account record cannot be RLP-encoded (negative integer)
  | acctMismatch    -- proven account value ≠ RLP of the claimed account record
  | storProof       -- storage proof does not verify (error)
  | absent          -- storage proof proves absence (nil value)
  | valueHash       -- CheckProofResult fails
  | decode          -- message does not decode
  deriving Repr, DecidableEq, Inhabited

/-! ## String helpers as the code uses them -/

def lower (c : Char) : Char := if 'A' ≤ c ∧ c ≤ 'Z' then Char.ofNat (c.toNat + 32) else c

/-- Remove the first occurrence of "0x" from a list of characters. -/
def dropFirst0x : List Char → List Char
  | '0' :: 'x' :: rest => rest
  | c :: rest => c :: dropFirst0x rest
  | [] => []

/-- `scom.Replace0x`: lower-case, then `strings.Replace(s, "0x", "", 1)`. (ASCII; the harness sends ASCII.) -/
def replace0x (s : String) : List Char := dropFirst0x (s.toList.map lower)

def hexDigit? (c : Char) : Option Nat :=
  if '0' ≤ c ∧ c ≤ '9' then some (c.toNat - 48)
  else if 'a' ≤ c ∧ c ≤ 'f' then some (c.toNat - 87)
  else if 'A' ≤ c ∧ c ≤ 'F' then some (c.toNat - 55)
  else none

/-- `common.Hex2Bytes`: `hex.DecodeString` with the error dropped — the bytes decoded before the first bad pair. -/
def hex2Bytes : List Char → Bytes
  | a :: b :: rest =>
    match hexDigit? a, hexDigit? b with
    | some x, some y => UInt8.ofNat (x * 16 + y) :: hex2Bytes rest
    | _, _ => []
  | _ => []

/-- `common.FromHex`: optional `0x`/`0X` prefix, odd length padded with a leading `0`. -/
def fromHex (s : List Char) : Bytes :=
  let s := match s with
    | '0' :: 'x' :: rest => rest
    | '0' :: 'X' :: rest => rest
    | _ => s
  let s := if s.length % 2 = 1 then '0' :: s else s
  hex2Bytes s

/-- `common.BytesToHash`: crop from the left to the last 32 bytes, or left-pad with zeros. -/
def bytesToHash (b : Bytes) : Bytes :=
  if b.length > 32 then b.drop (b.length - 32) else List.replicate (32 - b.length) 0 ++ b

/-- `common.HexToHash(scom.Replace0x(s))`. -/
def hexToHash (s : String) : Bytes := bytesToHash (fromHex (replace0x s))

def hexValue : List Char → Nat → Option Nat
  | [], acc => some acc
  | c :: rest, acc =>
    match hexDigit? c with
    | some d => hexValue rest (acc * 16 + d)
    | none => none

/-- `new(big.Int).SetString(scom.Replace0x(s), 16)`: optional sign, at least one hex digit, nothing else. -/
def setString16 (s : List Char) : Option Int :=
  let (neg, digits) := match s with
    | '+' :: rest => (false, rest)
    | '-' :: rest => (true, rest)
    | _ => (false, s)
  if digits.isEmpty then none
  else (hexValue digits 0).map fun n => if neg then -(n : Int) else (n : Int)

/-! ## RLP pieces -/

/-- `rlp.EncodeToBytes(&ProofAccount{nonce, balance, storage, codehash})`; `none` for a negative integer. -/
def rlpAccount (nonce balance : Int) (storage codeHash : Bytes) : Option Bytes :=
  if nonce < 0 ∨ balance < 0 then none
  else some (rlpList [rlpNat nonce.toNat, rlpNat balance.toNat, rlpBytes storage, rlpBytes codeHash])

def beNat (b : Bytes) : Nat := b.foldl (fun acc x => acc * 256 + x.toNat) 0

/-- `rlp.DecodeBytes(b, &[]byte)`: exactly one canonical RLP string, no trailing bytes. -/
def rlpDecodeString : Bytes → Option Bytes
  | [] => none
  | p :: rest =>
    let n := p.toNat
    if n < 128 then (if rest.isEmpty then some [p] else none)
    else if n < 184 then
      let len := n - 128
      if rest.length ≠ len then none
      else match rest with
        | [x] => if x.toNat < 128 then none else some rest      -- a single byte below 0x80 must encode itself
        | _ => some rest
    else if n < 192 then
      let ll := n - 183
      let lb := rest.take ll
      let body := rest.drop ll
      if lb.length ≠ ll then none
      else match lb with
        | 0 :: _ => none                                         -- length with leading zero
        | _ =>
          let len := beNat lb
          if len < 56 then none else if body.length ≠ len then none else some body
    else none                                                    -- a list where a string is expected

/-- `CheckProofResult(result, value)` given `K value`. -/
def checkProofResult (result : Bytes) (kValue : Bytes) : Bool :=
  match rlpDecodeString result with
  | none => false
  | some s => decide (List.replicate (32 - s.length) (0 : UInt8) ++ s = kValue)

/-! ## `ZeroCopySource` reads used by `MakeTxParam.Deserialization` -/

def leNat (b : Bytes) : Nat := b.foldr (fun x acc => x.toNat + 256 * acc) 0

/-- `NextBytes(n)` with the eof flag as `none`. -/
def nextBytes (n : Nat) (src : Bytes) : Option (Bytes × Bytes) :=
  if src.length < n then none else some (src.take n, src.drop n)

def nextUintLE (w : Nat) (src : Bytes) : Option (Nat × Bytes) :=
  (nextBytes w src).map fun (b, r) => (leNat b, r)

/-- `NextVarUint` (no canonicality check in this reader). -/
def nextVarUint : Bytes → Option (Nat × Bytes)
  | [] => none
  | fb :: rest =>
    if fb = 0xFD then nextUintLE 2 rest
    else if fb = 0xFE then nextUintLE 4 rest
    else if fb = 0xFF then nextUintLE 8 rest
    else some (fb.toNat, rest)

def nextVarBytes (src : Bytes) : Option (Bytes × Bytes) :=
  match nextVarUint src with
  | none => none
  | some (n, rest) => nextBytes n rest

/-- `MakeTxParam.Deserialization` (trailing bytes are ignored, as in the code). -/
def decodeTxParam (extra : Bytes) : Option TxParam := do
  let (txHash, r) ← nextVarBytes extra
  let (ccid, r) ← nextVarBytes r
  let (fromC, r) ← nextVarBytes r
  let (toChain, r) ← nextUintLE 8 r
  let (toC, r) ← nextVarBytes r
  let (method, r) ← nextVarBytes r
  let (args, _) ← nextVarBytes r
  pure ⟨txHash, ccid, fromC, toChain, toC, method, args⟩

/-! ## The decision procedure -/

def two32 : Nat := 4294967296
def two64 : Nat := 18446744073709551616

/-- `bestHeight < height || bestHeight − height < uint32(BlocksToWait − 1)` with `bestHeight = uint32(number)`;
`blocksToWait` is a `uint64`, `height` a `uint32`. Returns `true` when the deposit is **not** confirmed. -/
def notConfirmed (bestNumber blocksToWait height : Nat) : Bool :=
  let best := bestNumber % two32
  let wait := ((blocksToWait + two64 - 1) % two64) % two32
  decide (best < height) || decide (best - height < wait)

section
variable {H R : Type} [DecidableEq H]

/-- The bytes `bytes.Equal` sees: a nil value (absence) is the empty string. -/
def VpRes.bytes : VpRes → Bytes
  | .val v => v
  | _ => []

/-- Step 3 of `VerifyMerkleProof`: the single storage proof against the claimed storage hash. -/
def verifyStorage (K : Bytes → Bytes) (vp : Bytes → Bytes → List Bytes → VpRes) (p : EthProof) (storageHash : Bytes) :
    Except Reject VpRes :=
  match p.storageProofs with
  | [sp] =>
    let r := vp storageHash (K (hexToHash sp.key)) (sp.proof.map fun s => hex2Bytes (replace0x s))
    if r = .err then .error .storProof else .ok r
  | _ => .error .format

/-- `VerifyMerkleProof(ethProof, blockData, contractAddr)`: `root` is `blockData.Root`. -/
def verifyMerkleProof (K : Bytes → Bytes) (vp : Bytes → Bytes → List Bytes → VpRes)
    (p : EthProof) (root ccmc : Bytes) : Except Reject VpRes :=
  let addr := hex2Bytes (replace0x p.address)
  if addr ≠ ccmc then .error .address
  else
    let acctRes := vp root (K addr) (p.accountProof.map fun s => hex2Bytes (replace0x s))
    if acctRes = .err then .error .acctProof
    else
      match setString16 (replace0x p.nonce), setString16 (replace0x p.balance) with
      | some nonce, some balance =>
        let storageHash := hexToHash p.storageHash
        match rlpAccount nonce balance storageHash (hexToHash p.codeHash) with
        | none => .error .rlp
        | some acctRlp =>
          if acctRlp ≠ acctRes.bytes then .error .acctMismatch else verifyStorage K vp p storageHash
      | _, _ => .error .number

/-- The decision chain shared by every go-ethereum-trie router, over the two facts a router reads from its header
store: the head number (`none`: the store cannot be read) and the state root of the main-chain header at `height`
(`none`: no such header). The eth router obtains them with `GetCurrentHeader` / `GetHeaderByHeight`; the bsc, heco,
hsc, msc, pixiechain, polygon and bytom routers with `GetCanonicalHeight` / `GetCanonicalHeader`. -/
def verifyDeposit (K : Bytes → Bytes) (vp : Bytes → Bytes → List Bytes → VpRes)
    (bestNumber : Option Nat) (blockRoot : Option Bytes) (blocksToWait height : Nat) (ccmc : Bytes)
    (proof : Option EthProof) (extra : Bytes) : Except Reject TxParam :=
  match bestNumber with
  | none => .error .noHead
  | some best =>
    if notConfirmed best blocksToWait height then .error .notConfirmed
    else
      match blockRoot with
      | none => .error .noHeader
      | some rt =>
        match proof with
        | none => .error .json
        | some p =>
          if p.storageProofs.length ≠ 1 then .error .format
          else
            match verifyMerkleProof K vp p rt ccmc with
            | .error e => .error e
            | .ok .err => .error .storProof
            | .ok .absent => .error .absent
            | .ok (.val v) =>
              if !checkProofResult v (K extra) then .error .valueHash
              else
                match decodeTxParam extra with
                | none => .error .decode
                | some param => .ok param

/-- `verifyFromQuorumTx(proof, extra, hdr, sideChain)` of the quorum router: the proof part only, against the state
root of the header that came with the deposit (and was accepted by the validator-signature check). -/
def verifyFromQuorumTx (K : Bytes → Bytes) (vp : Bytes → Bytes → List Bytes → VpRes) (root ccmc : Bytes)
    (proof : Option EthProof) (extra : Bytes) : Except Reject Unit :=
  match proof with
  | none => .error .json
  | some p =>
    if p.storageProofs.length ≠ 1 then .error .format
    else
      match verifyMerkleProof K vp p root ccmc with
      | .error e => .error e
      | .ok .err => .error .storProof
      | .ok .absent => .error .absent
      | .ok (.val v) => if !checkProofResult v (K extra) then .error .valueHash else .ok ()
/-- `QuorumHandler.MakeDepositProposal` after the side-chain lookup, for a fresh cross-chain id and a header the
validator-signature check accepts (both outside this model): the message is decoded FIRST, then the proof is checked
against the supplied header's state root; the decoded message is returned. -/
def quorumMakeDeposit (K : Bytes → Bytes) (vp : Bytes → Bytes → List Bytes → VpRes) (root ccmc : Bytes)
    (proof : Option EthProof) (extra : Bytes) : Except Reject TxParam :=
  match decodeTxParam extra with
  | none => .error .decode
  | some param =>
    match verifyFromQuorumTx K vp root ccmc proof extra with
    | .error e => .error e
    | .ok _ => .ok param

/-- `verifyFromEthTx(native, proof, extra, fromChainID, height, sideChain)` over the light-client store `s`
(`root` projects the state root out of a stored header); `proof = none` is a JSON error. -/
def verifyFromEthTx (K : Bytes → Bytes) (vp : Bytes → Bytes → List Bytes → VpRes) (root : Hdr H R → Bytes)
    (s : Store H R) (blocksToWait height : Nat) (ccmc : Bytes) (proof : Option EthProof) (extra : Bytes) :
    Except Reject TxParam :=
  match currentHeader s with
  | none => .error .noHead
  | some best =>
    if notConfirmed best.hdr.number blocksToWait height then .error .notConfirmed
    else
      match headerByHeight s height with
      | none => .error .noHeader
      | some blk =>
        match proof with
        | none => .error .json
        | some p =>
          if p.storageProofs.length ≠ 1 then .error .format
          else
            match verifyMerkleProof K vp p (root blk.hdr) ccmc with
            | .error e => .error e
            | .ok .err => .error .storProof
            | .ok .absent => .error .absent
            | .ok (.val v) =>
              if !checkProofResult v (K extra) then .error .valueHash
              else
                match decodeTxParam extra with
                | none => .error .decode
                | some param => .ok param

end
end Poly.Model.EthDeposit
