import Poly.Util.Proto
import Poly.Model.LCPosa
/-! Line-protocol adapter of the PoSA light-client model (C29) for `drv_lc`.
Families whose name starts with `posa` or `bor`. Op vocabulary: see `harness/cmd/hlc/posa.go`. -/
namespace Poly.Model.LCPosaDrv
open Poly Poly.Model.LCPosa

structure DSt where
  router : Option Router
  addrs : Array Addr
  st : St
  descr : List (Nat × List String)
  ids : List Nat
  maxNum : Nat

def DSt.init : DSt := ⟨none, #[], St.empty, [], [], 0⟩

def unknownAddr : Addr := List.replicate 20 0xEE

def parseIdx (s : String) : Option (List Nat) :=
  if s == "-" then some [] else (s.splitOn ",").mapM (·.toNat?)

def addrOf (d : DSt) (k : Nat) : Option Addr := d.addrs[k]?

def parseCb (d : DSt) (s : String) : Option Addr :=
  if s == "z" then some (List.replicate 20 0) else s.toNat?.bind (addrOf d)

/-- `<pre>/<vals>/<tail>/<seal>` -/
def parseExtra (d : DSt) (s : String) : Option (List UInt8 × Nat) :=
  match s.splitOn "/" with
  | [pre, vals, tail, sealS] =>
    match pre.toNat?, parseIdx vals, tail.toNat?, sealS.toNat? with
    | some pre, some vals, some tail, some sealN =>
      match vals.mapM (addrOf d) with
      | some as => some (List.replicate pre 0 ++ as.flatten ++ List.replicate tail 0xab ++ List.replicate sealN 0, sealN)
      | none => none
    | _, _, _, _ => none
  | _ => none

def parseSeal (d : DSt) (s : String) (sealLen : Nat) : Option (Option Addr) :=
  match s.toList with
  | ['x'] => some none
  | ['n'] => some none
  | 's' :: rest =>
    match (String.ofList rest).toNat?.bind (addrOf d) with
    | some a => some (if sealLen = 65 then some a else none)
    | none => none
  | 'w' :: rest =>
    match (String.ofList rest).toNat?.bind (addrOf d) with
    | some _ => some (if sealLen = 65 then some unknownAddr else none)
    | none => none
  | _ => none

def parseFlags (s : String) : Option (Bool × Bool) :=
  if s == "-" then some (true, true)
  else (s.splitOn ",").foldlM (fun (acc : Bool × Bool) f =>
    if f == "mix" then some (false, acc.2) else if f == "unc" then some (acc.1, false) else none) (true, true)

def parsePvs (d : DSt) (s : String) : Option (List HV) :=
  if s == "-" then some []
  else (s.splitOn ";").mapM fun e =>
    match e.splitOn ":" with
    | [h, vs] =>
      match h.toNat?, parseIdx vs with
      | some h, some vs => (vs.mapM (addrOf d)).map fun as => (⟨h, as, none⟩ : HV)
      | _, _ => none
    | _ => none

def showRej : Rej → String
  | .vanity => "vanity" | .sealmissing => "sealmissing" | .signerlist => "signerlist" | .mix => "mix" | .uncle => "uncle"
  | .difficulty => "difficulty" | .ancestor => "ancestor" | .gascap => "gascap" | .gasused => "gasused"
  | .gaslimit => "gaslimit" | .time => "time" | .basefee => "basefee" | .block0 => "block0" | .seal => "seal"
  | .epoch => "epoch" | .recent => "recent" | .turn => "turn" | .signer => "signer"
  | .nogenesis => "nogenesis" | .getHeader => "getheader" | .parse => "parse" | .fuel => "fuel" | .nocanon => "nocanon"
  | .genesisStored => "genesis-stored" | .prevValidators => "prevvalidators" | .heightOrder => "heightorder"
  | .genesisSigners => "signerlist"
  | .cpBeneficiary => "cp-beneficiary" | .nonce => "nonce" | .cpNonce => "cp-nonce" | .extraSigners => "extra-signers"
  | .cpSignerlist => "cp-signerlist" | .cpMismatch => "cp-mismatch" | .extraInfo => "extrainfo"
  | .genesisHeight => "genesis-height"
  | .toosoon => "toosoon"

def showOut : Out → String
  | .ok => "ok" | .skipDup => "skip:dup" | .skipNoParent => "skip:noparent" | .reject r => "reject:" ++ showRej r
  | .panic => "panic"

/-- number of canonical assignments over the height range touched so far and a position-sensitive checksum -/
def canonDigest (st : St) (gnum maxNum : Nat) : String :=
  let lo := if gnum ≥ 2 then gnum - 2 else 0
  let (cnt, sum) := (List.range (maxNum + 3 - lo)).foldl (fun (acc : Nat × Nat) i =>
    let h := lo + i
    match st.canon h with
    | some id => (acc.1 + 1, (acc.2 + (h * 1000003 + id) * (h + 13)) % 1000000007)
    | none => acc) (0, 0)
  s!"cn={cnt}/{sum}"

def canonLine (st : St) (maxNum : Nat) : String :=
  match st.genesis with
  | none => "nocanon"
  | some g =>
    let dg := canonDigest st g.hdr.number maxNum
    match st.canon st.height with
    | none => s!"h={st.height} head=nil {dg}"
    | some id =>
      match st.hdrs id with
      | none => s!"h={st.height} head=nil {dg}"
      | some s => s!"h={st.height} head={id} td={s.td} {dg}"

def checkDescr (d : DSt) (id : Nat) (toks : List String) : Bool :=
  match d.descr.find? (·.1 == id) with
  | some (_, t) => t == toks
  | none => true

def joinNats (l : List Nat) : String :=
  if l.isEmpty then "-" else ",".intercalate (l.map toString)

def sortU (l : List Nat) : List Nat := (l.mergeSort (· ≤ ·)).eraseDups

def showState (d : DSt) : String :=
  let cs := (List.range (d.maxNum + 3)).filterMap fun h => (d.st.canon h).map fun id => s!"{h}:{id}"
  let canon := if cs.isEmpty then "-" else ",".intercalate cs
  let stored := (sortU d.ids).filter fun id => (d.st.hdrs id).isSome
  s!"canon={canon} stored={joinNats stored}"

def routerOf (name : String) (period : Nat) : Option Router :=
  if name == "bsc" || name == "bytom" then some Router.bsc
  else if name == "heco" then some (Router.heco period)
  else if name == "hsc" then some (Router.hsc period)
  else if name == "pixie" then some (Router.pixie period)
  else none

def parseTable (s : String) : Option (Array Addr) :=
  ((s.splitOn ",").mapM fun a => (Hex.ofHex a).bind fun b => if b.length = 20 then some b else none).map List.toArray

/-- one `hdr` op of family posa; `record` is the op text remembered for the label -/
def hdrPosa (d : DSt) (toks record : List String) : DSt × String :=
  match toks with
  | ["hdr", id, parent, num, cb, sealTok, diff, extra, time, gl, gu, flags, basefee] =>
    match d.router, id.toNat?, parent.toNat?, num.toNat?, parseCb d cb, diff.toNat?, parseExtra d extra with
    | some R, some id, some parent, some num, some cb, some diff, some (extra, sealLen) =>
      match parseSeal d sealTok sealLen, time.toNat?, gl.toNat?, gu.toNat?, parseFlags flags,
          (if basefee == "-" then some none else basefee.toNat?.map some) with
      | some signer, some time, some gl, some gu, some (mixZero, uncleOk), some baseFee =>
        if !checkDescr d id record then (d, "bad-op")
        else
          let h : Hdr := ⟨id, parent, num, cb, signer, diff, extra, time, gl, gu, mixZero, uncleOk, baseFee, .drop⟩
          let (st', o) := syncHeader R d.st h
          let d' := { d with st := st', descr := (id, record) :: d.descr, ids := id :: d.ids, maxNum := max d.maxNum num }
          if o == .panic then (d', "panic") else (d', showOut o ++ " " ++ canonLine st' d'.maxNum)
      | _, _, _, _, _, _ => (d, "bad-op")
    | _, _, _, _, _, _, _ => (d, "bad-op")
  | _ => (d, "bad-op")

/-- `twin <id> <orig> <seal>`: the hdr descriptor of `orig` with a new label and another seal -/
def twinToks (descr : List (Nat × List String)) (id orig sealTok : String) : Option (List String) :=
  match orig.toNat? with
  | none => none
  | some o =>
    match descr.find? (·.1 == o) with
    | some (_, "hdr" :: _ :: rest) =>
      match rest with
      | parent :: num :: cb :: _ :: more => some ("hdr" :: id :: parent :: num :: cb :: sealTok :: more)
      | _ => none
    | _ => none

def stepPosa (d : DSt) (toks : List String) : DSt × String :=
  match toks with
  | ["router", name, _cid, period, table] =>
    match d.router, period.toNat?, parseTable table with
    | none, some per, some tab =>
      match routerOf name per with
      | some R => ({ d with router := some R, addrs := tab }, "ok")
      | none => (d, "bad-op")
    | _, _, _ => (d, "bad-op")
  | ["genesis", id, num, cb, diff, extra, pvs, time, gl] =>
    match d.router, id.toNat?, num.toNat?, parseCb d cb, diff.toNat?, parseExtra d extra, parsePvs d pvs, time.toNat?, gl.toNat? with
    | some _, some id, some num, some cb, some diff, some (extra, _), some pvs, some time, some gl =>
      if !checkDescr d id toks then (d, "bad-op")
      else
        let g : Hdr := ⟨id, 0, num, cb, none, diff, extra, time, gl, 0, true, true, none, .drop⟩
        let (st', o) := syncGenesis d.st g pvs
        let d' := { d with st := st', descr := (id, toks) :: d.descr, ids := id :: d.ids, maxNum := max d.maxNum num }
        if o == .panic then (d', "panic") else (d', showOut o ++ " " ++ canonLine st' d'.maxNum)
    | _, _, _, _, _, _, _, _, _ => (d, "bad-op")
  | "hdr" :: _ => if toks.length == 13 then hdrPosa d toks toks else (d, "bad-op")
  | ["twin", id, orig, sealTok] =>
    match twinToks d.descr id orig sealTok with
    | some t => if t.length == 13 then hdrPosa d t toks else (d, "bad-op")
    | none => (d, "bad-op")
  | ["junk"] => if d.router.isSome then (d, "reject:json") else (d, "bad-op")
  | ["state"] => if d.router.isSome then (d, showState d) else (d, "bad-op")
  | _ => (d, "bad-op")

/-! ## family posamsc -/

structure MSt where
  cfg : Option Msc.Cfg
  addrs : Array Addr
  st : St
  descr : List (Nat × List String)
  ids : List Nat
  maxNum : Nat

def MSt.init : MSt := ⟨none, #[], St.empty, [], [], 0⟩

def MSt.asD (m : MSt) : DSt := ⟨none, m.addrs, m.st, m.descr, m.ids, m.maxNum⟩

def showOutMsc : Out → String := showOut

/-- flags of the msc family: mix, unc, auth, badnonce -/
def parseFlagsMsc (s : String) : Option (Bool × Bool × Nonce) :=
  if s == "-" then some (true, true, .drop)
  else (s.splitOn ",").foldlM (fun (acc : Bool × Bool × Nonce) f =>
    if f == "mix" then some (false, acc.2.1, acc.2.2) else if f == "unc" then some (acc.1, false, acc.2.2)
    else if f == "auth" then some (acc.1, acc.2.1, .auth) else if f == "badnonce" then some (acc.1, acc.2.1, .other)
    else none) (true, true, .drop)

def hdrMsc (d : MSt) (toks record : List String) : MSt × String :=
  match toks with
  | ["hdr", id, parent, num, cb, sealTok, diff, extra, time, flags] =>
    match d.cfg, id.toNat?, parent.toNat?, num.toNat?, parseCb d.asD cb, diff.toNat?, parseExtra d.asD extra with
    | some C, some id, some parent, some num, some cb, some diff, some (extra, sealLen) =>
      match parseSeal d.asD sealTok sealLen, time.toNat?, parseFlagsMsc flags with
      | some signer, some time, some (mixZero, uncleOk, nonce) =>
        if !checkDescr d.asD id record then (d, "bad-op")
        else
          let h : Hdr := { id := id, parent := parent, number := num, coinbase := cb, signer := signer, difficulty := diff, extra := extra,
                           time := time, gasLimit := 30000000, gasUsed := 0, mixZero := mixZero, uncleOk := uncleOk, baseFee := none,
                           nonce := nonce }
          let (st', o) := Msc.syncHeader C d.st h
          let d' := { d with st := st', descr := (id, record) :: d.descr, ids := id :: d.ids, maxNum := max d.maxNum num }
          if o == .panic then (d', "panic") else (d', showOutMsc o ++ " " ++ canonLine st' d'.maxNum)
      | _, _, _ => (d, "bad-op")
    | _, _, _, _, _, _, _ => (d, "bad-op")
  | _ => (d, "bad-op")

def stepMsc (d : MSt) (toks : List String) : MSt × String :=
  match toks with
  | ["router", "msc", epoch, period, table] =>
    match d.cfg, epoch.toNat?, period.toNat?, parseTable table with
    | none, some ep, some per, some tab => ({ d with cfg := some ⟨ep, per⟩, addrs := tab }, "ok")
    | _, _, _, _ => (d, "bad-op")
  | ["genesis", id, num, cb, sealTok, diff, extra, time] =>
    match d.cfg, id.toNat?, num.toNat?, parseCb d.asD cb, diff.toNat?, parseExtra d.asD extra, time.toNat? with
    | some C, some id, some num, some cb, some diff, some (extra, sealLen), some time =>
      match parseSeal d.asD sealTok sealLen with
      | some signer =>
        if !checkDescr d.asD id toks then (d, "bad-op")
        else
          let g : Hdr := { id := id, parent := 0, number := num, coinbase := cb, signer := signer, difficulty := diff, extra := extra,
                           time := time, gasLimit := 30000000, gasUsed := 0, mixZero := true, uncleOk := true, baseFee := none }
          let (st', o) := Msc.syncGenesis C d.st g
          let d' := { d with st := st', descr := (id, toks) :: d.descr, ids := id :: d.ids, maxNum := max d.maxNum num }
          (d', showOutMsc o ++ " " ++ canonLine st' d'.maxNum)
      | none => (d, "bad-op")
    | _, _, _, _, _, _, _ => (d, "bad-op")
  | "hdr" :: _ => if toks.length == 10 then hdrMsc d toks toks else (d, "bad-op")
  | ["twin", id, orig, sealTok] =>
    match twinToks d.descr id orig sealTok with
    | some t => if t.length == 10 then hdrMsc d t toks else (d, "bad-op")
    | none => (d, "bad-op")
  | ["state"] => if d.cfg.isSome then (d, showState d.asD) else (d, "bad-op")
  | _ => (d, "bad-op")

/-! ## family bor -/

structure BSt where
  cfg : Option Bor.Cfg
  addrs : Array Addr
  st : St
  descr : List (Nat × List String)
  ids : List Nat
  maxNum : Nat

def BSt.init : BSt := ⟨none, #[], St.empty, [], [], 0⟩
def BSt.asD (m : BSt) : DSt := ⟨none, m.addrs, m.st, m.descr, m.ids, m.maxNum⟩

def hdrBor (d : BSt) (toks record : List String) : BSt × String :=
  match toks with
  | ["hdr", id, parent, num, sealTok, diff, extra, time, flags] =>
    match d.cfg, id.toNat?, parent.toNat?, num.toNat?, diff.toNat?, parseExtra d.asD extra with
    | some C, some id, some parent, some num, some diff, some (extra, sealLen) =>
      match parseSeal d.asD sealTok sealLen, time.toNat?, parseFlags flags with
      | some signer, some time, some (mixZero, uncleOk) =>
        if !checkDescr d.asD id record then (d, "bad-op")
        else
          let h : Hdr := { id := id, parent := parent, number := num, coinbase := Msc.zeroAddr, signer := signer, difficulty := diff,
                           extra := extra, time := time, gasLimit := 30000000, gasUsed := 0, mixZero := mixZero, uncleOk := uncleOk,
                           baseFee := none }
          let (st', o) := Bor.syncHeader C d.st h
          let d' := { d with st := st', descr := (id, record) :: d.descr, ids := id :: d.ids, maxNum := max d.maxNum num }
          (d', showOut o ++ " " ++ canonLine st' d'.maxNum)
      | _, _, _ => (d, "bad-op")
    | _, _, _, _, _, _ => (d, "bad-op")
  | _ => (d, "bad-op")

def twinToksBor (descr : List (Nat × List String)) (id orig sealTok : String) : Option (List String) :=
  match orig.toNat? with
  | none => none
  | some o =>
    match descr.find? (·.1 == o) with
    | some (_, ["hdr", _, parent, num, _, diff, extra, time, flags]) => some ["hdr", id, parent, num, sealTok, diff, extra, time, flags]
    | _ => none

def stepBor (d : BSt) (toks : List String) : BSt × String :=
  match toks with
  | ["router", "bor", period, _pdelay, backup, table] =>
    match d.cfg, period.toNat?, backup.toNat?, parseTable table with
    | none, some per, some b, some tab => ({ d with cfg := some ⟨per, b⟩, addrs := tab }, "ok")
    | _, _, _, _ => (d, "bad-op")
  | ["genesis", id, num, vals, _powers, _k, prop, time, diff] =>
    match d.cfg, id.toNat?, num.toNat?, parseIdx vals, prop.toNat?, time.toNat?, diff.toNat? with
    | some _, some id, some num, some vals, some prop, some time, some diff =>
      match vals.mapM (addrOf d.asD), addrOf d.asD prop with
      | some as, some pa =>
        if !checkDescr d.asD id toks then (d, "bad-op")
        else
          let sorted := as.foldl (fun acc a => Msc.insertSigner a acc) []
          let g : Hdr := { id := id, parent := 0, number := num, coinbase := Msc.zeroAddr, signer := none, difficulty := diff,
                           extra := List.replicate 97 0, time := time, gasLimit := 30000000, gasUsed := 0, mixZero := true,
                           uncleOk := true, baseFee := none }
          let (st', o) := Bor.syncGenesis d.st g sorted (Msc.indexOf pa sorted)
          let d' := { d with st := st', descr := (id, toks) :: d.descr, ids := id :: d.ids, maxNum := max d.maxNum num }
          (d', showOut o ++ " " ++ canonLine st' d'.maxNum)
      | _, _ => (d, "bad-op")
    | _, _, _, _, _, _, _ => (d, "bad-op")
  | "hdr" :: _ => hdrBor d toks toks
  | ["twin", id, orig, sealTok] =>
    match twinToksBor d.descr id orig sealTok with
    | some t => hdrBor d t toks
    | none => (d, "bad-op")
  | ["state"] => if d.cfg.isSome then (d, showState d.asD) else (d, "bad-op")
  | _ => (d, "bad-op")

def main (family : String) : IO Unit :=
  if family == "posa" then Proto.run DSt.init stepPosa
  else if family == "posamsc" then Proto.run MSt.init stepMsc
  else if family == "bor" then Proto.run BSt.init stepBor
  else IO.eprintln s!"drv_lc: family {family} is not implemented"

end Poly.Model.LCPosaDrv
