/-
Model of `validator/increment.IncrementValidator`: the tracker of the transaction hashes of the most recent
contiguous blocks. Transaction hashes are abstract identifiers (`Nat`; equality of identifiers = equality of
32-byte hashes); a block's `map[Uint256]bool` is a list used only through membership. Heights are `uint32`:
natural numbers below `W = 2^32` with wrap-around written explicitly.
-/
namespace Poly.Model.IncVal

abbrev TxId := Nat

def W : Nat := 4294967296

structure IncVal where
  blocks : List (List TxId) := []
  base : Nat := 0          -- baseHeight (uint32)
  max : Nat := 20          -- maxBlocks (> 0 after the constructor)
  deriving Repr

/-- `NewIncrementValidator(maxBlocks)`: non-positive capacities become 20. -/
def new (maxBlocks : Int) : IncVal := { max := if maxBlocks ≤ 0 then 20 else maxBlocks.toNat }

def IncVal.clean (s : IncVal) : IncVal := { s with blocks := [], base := 0 }

/-- `baseHeight + uint32(len(blocks))`. -/
def IncVal.endHeight (s : IncVal) : Nat := (s.base + s.blocks.length) % W

/-- `BlockRange() = [start, end)`. -/
def IncVal.blockRange (s : IncVal) : Nat × Nat := (s.base, s.endHeight)

/-- `AddBlock(block)` with `height = block.Header.Height < 2^32` and the block's transaction hashes. -/
def IncVal.addBlock (s : IncVal) (height : Nat) (txs : List TxId) : IncVal :=
  let s := if s.blocks.isEmpty then { s with base := height } else s
  if s.endHeight ≠ height then s     -- "discontinue block is not allowed": logged and ignored
  else
    let s := if s.blocks.length ≥ s.max then { s with blocks := s.blocks.tail, base := (s.base + 1) % W } else s
    { s with blocks := s.blocks ++ [txs] }

inductive Verdict where
  | ok           -- nil
  | dup          -- "tx duplicated"
  | errStart     -- "can not do increment validation: startHeight < baseHeight"
  deriving DecidableEq, Repr

/-- `Verify(tx, startHeight)`. -/
def IncVal.verify (s : IncVal) (tx : TxId) (start : Nat) : Verdict :=
  if start < s.base then .errStart
  else if (s.blocks.drop (start - s.base)).any (fun b => b.contains tx) then .dup
  else .ok

/-- Stateful validation (`validator/stateful`): `ledger.IsContainTransaction(tx.Hash())` decides; the ledger is
the set of included transaction hashes. -/
def statefulCheck (ledger : List TxId) (tx : TxId) : Verdict := if ledger.contains tx then .dup else .ok

/-- Verdict of the stateful validator: `ErrNoError`, `ErrDuplicatedTx`, `ErrUnknown`. -/
inductive SVerdict where
  | ok | dup | unknown
  deriving DecidableEq, Repr

/-- Stateful validation with a ledger lookup that can fail: `IsContainTransaction` answers from the in-memory
transaction cache when the hash is there (`cached`: transactions of blocks committed since the ledger was opened),
otherwise asks LevelDB, which fails when `storeOk = false`; a failed lookup is reported as `ErrUnknown`. -/
def statefulCheckE (cached ledger : List TxId) (storeOk : Bool) (tx : TxId) : SVerdict :=
  if cached.contains tx then .dup
  else if !storeOk then .unknown
  else if ledger.contains tx then .dup else .ok

end Poly.Model.IncVal
