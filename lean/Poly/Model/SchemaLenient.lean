import Poly.Model.Schema
/-!
# Decoders that test eof only once at the end (p2p messages)

`Version`, `HeadersReq`, `BlocksReq`, `DataReq`, `Inv`, `Addr` entries and `ConsensusPayload.deserializationUnsigned` assign
`x, eof = source.NextX()` field after field and look at `eof` after the last one. `Ty.lenient` models that control flow;
`Poly.Proofs.SchemaLenient` shows it accepts exactly what the strict product schema accepts (a `NextBytes` that hits eof
moves the offset to the end, so every later read reports eof too).
-/
namespace Poly.Model.Schema
open Poly.Model.Codec

/-- the pure reader behind a plain leaf (integers, booleans, byte strings, fixed arrays) -/
def Leaf.pr : (l : Leaf) → Option (Bytes → P.R l.Val)
  | .u8 => some P.nextByte | .u16 => some P.nextU16 | .u32 => some P.nextU32 | .u64 => some P.nextU64
  | .i64 => some P.nextI64 | .bool => some P.nextBool | .varuint => some P.nextVarUint
  | .varbytes => some P.nextVarBytes | .fixed n => some (P.nextFixed n)
  | _ => none

/-- Go decoders that assign `x, eof = source.NextX()` field after field and test `eof` only once at the end: every field is
read whatever happened before, only the last flag is looked at. Defined for products of unguarded plain leaves. -/
def Ty.lenient : (t : Ty) → Bytes → Option (t.Val × Bytes × Bool)
  | .leaf l .none, bs => (l.pr).map fun rd => rd bs
  | .pair a b, bs =>
    match a.lenient bs with
    | none => none
    | some (x, r, _) =>
      match b.lenient r with
      | none => none
      | some (y, r', e) => some ((x, y), r', e)
  | _, _ => none

/-- after the final `if eof { return err }` -/
def Ty.decLenient (t : Ty) (bs : Bytes) : Option (D t.Val) :=
  (t.lenient bs).map fun (v, r, e) => if e then .error .eof else .ok (v, r)

/-- a leaf whose eof leaves nothing unread (`NextBytes` consumes to the end on eof) -/
def Leaf.sticky : Leaf → Bool
  | .u8 | .u16 | .u32 | .u64 | .i64 | .varuint | .varbytes => true
  | .fixed n => n > 0
  | _ => false

/-- a leaf that reports eof on empty input -/
def Leaf.needsInput : Leaf → Bool
  | .u8 | .u16 | .u32 | .u64 | .i64 | .bool | .varuint | .varbytes => true
  | .fixed n => n > 0
  | _ => false

def Ty.allSticky : Ty → Bool
  | .leaf l .none => l.sticky
  | .pair a b => a.allSticky && b.allSticky
  | _ => false

/-- products of unguarded plain leaves in which every field but the last is sticky and every field needs input -/
def Ty.lenientOk : Ty → Bool
  | .leaf l .none => l.needsInput
  | .pair a b => a.lenientOk && a.allSticky && b.lenientOk
  | _ => false

end Poly.Model.Schema
