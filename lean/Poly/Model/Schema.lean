import Poly.Model.Codec
/-!
# Schema DSL for the binary record formats (C02, C04, C05)

A record format is a term of `Ty`: leaves (the primitives of `Poly.Model.Codec`, optionally guarded), binary products,
counted lists (count encoding, count bound, allocation mode, Go loop form, decode-side clamp) and counted maps with a
leaf key (encoded in a canonical key order, decoded into a Go map: last duplicate wins). `Ty.Val` is the type of values,
`Ty.enc` the encoder, `Ty.dec` the decoder (on the unread remainder, built from the pure readers `P.nextX`).

Decoding mirrors the Go control flow of the hand-written `Deserialization` methods: eof ⇒ error, guards checked right
after the field is read, `make([]T, n)` with an attacker-supplied `n` is the outcome `panic` when the Go runtime would
panic (`makeslice: len out of range`), `for i := 0; i < int(n); i++` runs zero times for `n ≥ 2^63`.
Public keys are an opaque leaf: `K : Bytes → Option Bytes` is `keypair.DeserializePublicKey` followed by
`SerializePublicKey` (wire bytes ↦ canonical bytes, `none` = invalid); models and theorems are parametric in `K`.
-/
namespace Poly.Model.Schema
open Poly.Model.Codec

/-- count / length encodings -/
inductive Cnt | u8 | u16 | u32 | u64 | varuint
deriving DecidableEq, Repr

/-- a check on the measure of a leaf value (integer value, or byte length) made by the decoder -/
inductive Guard | none | le (n : Nat) | eq (n : Nat) | ge (n : Nat) | oneOf (l : List Nat)
deriving DecidableEq, Repr

def Guard.ok : Guard → Nat → Bool
  | .none, _ => true
  | .le n, m => m ≤ n
  | .eq n, m => m == n
  | .ge n, m => n ≤ m
  | .oneOf l, m => l.contains m

inductive Leaf
  | u8 | u16 | u32 | u64 | i64 | bool | varuint
  | varbytes            -- `WriteVarBytes` / `WriteString`
  | fixed (n : Nat)     -- address (20), hash (32), raw arrays
  | key                 -- public key: var-bytes of the serialized key, validated by the key library
  | bigint              -- `big.Int` as var-bytes of `Bytes()` (big endian, sign dropped) / `SetBytes`
  | optFixed (n : Nat)  -- trailing fixed field whose eof is ignored (zero value), e.g. p2p `Block.MerkleRoot`
  | optString           -- trailing string whose eof is ignored (empty value), p2p `Version.SoftVersion`
  | optBytes            -- trailing var-bytes whose eof is ignored *keeping the short data*, `SideChain.ExtraInfo`
deriving DecidableEq, Repr

def Leaf.Val : Leaf → Type
  | .u8 => UInt8 | .u16 => UInt16 | .u32 => UInt32 | .u64 => UInt64 | .i64 => Int64 | .bool => Bool
  | .varuint => UInt64 | .varbytes => Bytes | .fixed _ => Bytes | .key => Bytes | .bigint => Nat
  | .optFixed _ => Bytes | .optString => Bytes | .optBytes => Bytes

/-- big-endian minimal bytes of a natural (`big.Int.Bytes()`; zero is the empty string) -/
def beBytesAux : Nat → Nat → Bytes → Bytes
  | 0, _, acc => acc
  | fuel + 1, n, acc => if n = 0 then acc else beBytesAux fuel (n / 256) (UInt8.ofNat (n % 256) :: acc)

def beBytes (n : Nat) : Bytes := beBytesAux n n []

/-- `big.Int.SetBytes` -/
def ofBe (bs : Bytes) : Nat := bs.foldl (fun acc b => acc * 256 + b.toNat) 0

def Leaf.enc : (l : Leaf) → l.Val → Bytes
  | .u8, v => wU8 v | .u16, v => wU16 v | .u32, v => wU32 v | .u64, v => wU64 v | .i64, v => wI64 v
  | .bool, v => wBool v | .varuint, v => wVarUint v | .varbytes, v => wVarBytes v | .fixed _, v => wBytes v
  | .key, v => wVarBytes v | .bigint, v => wVarBytes (beBytes v)
  | .optFixed _, v => wBytes v | .optString, v => wVarBytes v | .optBytes, v => wVarBytes v

/-- what a guard looks at -/
def Leaf.measure : (l : Leaf) → l.Val → Nat
  | .u8, v => v.toNat | .u16, v => v.toNat | .u32, v => v.toNat | .u64, v => v.toNat | .i64, v => v.toUInt64.toNat
  | .bool, v => Bool.toNat v | .varuint, v => v.toNat | .varbytes, v => v.length | .fixed _, v => v.length
  | .key, v => v.length | .bigint, v => v
  | .optFixed _, v => v.length | .optString, v => v.length | .optBytes, v => v.length

inductive Err | eof | reject | panic
deriving DecidableEq, Repr

/-- decoder result: value and unread remainder -/
abbrev D (α : Type) := Except Err (α × Bytes)

def ofP {α : Type} (p : P.R α) : D α := if p.2.2 then .error .eof else .ok (p.1, p.2.1)

def Leaf.dec (K : Bytes → Option Bytes) : (l : Leaf) → Bytes → D l.Val
  | .u8, bs => ofP (P.nextByte bs)
  | .u16, bs => ofP (P.nextU16 bs)
  | .u32, bs => ofP (P.nextU32 bs)
  | .u64, bs => ofP (P.nextU64 bs)
  | .i64, bs => ofP (P.nextI64 bs)
  | .bool, bs => ofP (P.nextBool bs)
  | .varuint, bs => ofP (P.nextVarUint bs)
  | .varbytes, bs => ofP (P.nextVarBytes bs)
  | .fixed n, bs => ofP (P.nextFixed n bs)
  | .key, bs =>
    match ofP (P.nextVarBytes bs) with
    | .error e => .error e
    | .ok (b, r) => match K b with
      | some c => .ok (c, r)
      | none => .error .reject
  | .bigint, bs =>
    match ofP (P.nextVarBytes bs) with
    | .error e => .error e
    | .ok (b, r) => .ok (ofBe b, r)
  | .optFixed n, bs => let p := P.nextFixed n bs; .ok (p.1, p.2.1)
  | .optString, bs => let p := P.nextVarBytes bs; .ok (if p.2.2 then [] else p.1, p.2.1)
  | .optBytes, bs => let p := P.nextVarBytes bs; .ok (p.1, p.2.1)

/-- a leaf with its guard -/
def Leaf.decG (K : Bytes → Option Bytes) (l : Leaf) (g : Guard) (bs : Bytes) : D l.Val :=
  match l.dec K bs with
  | .error e => .error e
  | .ok (v, r) => if g.ok (l.measure v) then .ok (v, r) else .error .reject

/-- key orders of the encoders' `sort.SliceStable` -/
inductive KeyOrd
  | desc      -- `a > b` on strings / byte strings / integers
  | descRev   -- `a.ToHexString() > b.ToHexString()`: descending on the reversed bytes (addresses)
deriving DecidableEq, Repr

/-- allocation done by the decoder before reading the elements -/
inductive Alloc
  | append                        -- `append` in the loop (or `make(…, 0)`)
  | prealloc (elemSize : Nat)     -- `make([]T, n)` / `make([]T, 0, n)` with the wire count
deriving DecidableEq, Repr

structure ListOpt where
  cnt : Cnt
  bound : Option Nat := none       -- count > bound ⇒ error, checked before anything is allocated or read
  alloc : Alloc := .append
  signedLoop : Bool := false       -- `for i := 0; i < int(n); i++` with `n : uint64`: zero iterations when n ≥ 2^63
  clamp : Option Nat := none       -- after the loop the slice is cut to its first k elements
deriving DecidableEq, Repr

inductive Ty
  | leaf (l : Leaf) (g : Guard)
  | pair (a b : Ty)
  | list (o : ListOpt) (t : Ty)
  | map (c : Cnt) (k : Leaf) (kg : Guard) (v : Ty) (ord : KeyOrd)
deriving Repr

def Ty.Val : Ty → Type
  | .leaf l _ => l.Val
  | .pair a b => a.Val × b.Val
  | .list _ t => List t.Val
  | .map _ k _ v _ => List (k.Val × v.Val)

/-- the count as the Go encoder writes it (`uint16(len(x))` etc. truncate) -/
def encCnt : Cnt → Nat → Bytes
  | .u8, n => wU8 (UInt8.ofNat n)
  | .u16, n => wU16 (UInt16.ofNat n)
  | .u32, n => wU32 (UInt32.ofNat n)
  | .u64, n => wU64 (UInt64.ofNat n)
  | .varuint, n => wVarUint (UInt64.ofNat n)

def decCnt : Cnt → Bytes → D Nat
  | .u8, bs => (ofP (P.nextByte bs)).map fun (v, r) => (v.toNat, r)
  | .u16, bs => (ofP (P.nextU16 bs)).map fun (v, r) => (v.toNat, r)
  | .u32, bs => (ofP (P.nextU32 bs)).map fun (v, r) => (v.toNat, r)
  | .u64, bs => (ofP (P.nextU64 bs)).map fun (v, r) => (v.toNat, r)
  | .varuint, bs => (ofP (P.nextVarUint bs)).map fun (v, r) => (v.toNat, r)

/-- largest count the encoding can carry -/
def Cnt.max : Cnt → Nat
  | .u8 => 2 ^ 8 | .u16 => 2 ^ 16 | .u32 => 2 ^ 32 | .u64 => 2 ^ 64 | .varuint => 2 ^ 64

def Ty.enc : (t : Ty) → t.Val → Bytes
  | .leaf l _, v => l.enc v
  | .pair a b, (x, y) => a.enc x ++ b.enc y
  | .list o t, vs => encCnt o.cnt vs.length ++ (vs.map t.enc).flatten
  | .map c k _ v _, es => encCnt c es.length ++ (es.map fun e => k.enc e.1 ++ v.enc e.2).flatten

/-- `n` elements one after the other -/
def decList {α : Type} (d : Bytes → D α) : Nat → Bytes → D (List α)
  | 0, bs => .ok ([], bs)
  | n + 1, bs =>
    match d bs with
    | .error e => .error e
    | .ok (x, r) =>
      match decList d n r with
      | .error e => .error e
      | .ok (xs, r') => .ok (x :: xs, r')

/-- Go runtime `makeslice`: panics when the length does not fit `int` or `len * elemSize` exceeds `maxAlloc` (2^48 on
linux/amd64). (Below that limit a huge request is an out-of-memory *crash*, which is not modelled: see `Alloc.huge`.) -/
def Alloc.panics : Alloc → Nat → Bool
  | .append, _ => false
  | .prealloc sz, n => n ≥ 2 ^ 63 || n * sz > 2 ^ 48

/-- lexicographic `<` on byte strings (Go string / `bytes.Compare` order) -/
def bytesLt : Bytes → Bytes → Bool
  | [], [] => false
  | [], _ :: _ => true
  | _ :: _, [] => false
  | a :: as, b :: bs => a < b || (a == b && bytesLt as bs)

/-- the byte string whose lexicographic order is the order the encoder sorts a key by -/
def Leaf.sortKey : (l : Leaf) → KeyOrd → l.Val → Bytes
  | .u8, _, v => [v] | .u16, _, v => (wU16 v).reverse | .u32, _, v => (wU32 v).reverse | .u64, _, v => (wU64 v).reverse
  | .i64, _, v => (wI64 v).reverse | .bool, _, v => wBool v | .varuint, _, v => (wU64 v).reverse
  | .varbytes, .desc, v => v | .varbytes, .descRev, v => v.reverse
  | .fixed _, .desc, v => v | .fixed _, .descRev, v => v.reverse
  | .key, _, v => v | .bigint, _, v => beBytes v
  | .optFixed _, _, v => v | .optString, _, v => v | .optBytes, _, v => v

/-- Go map built by inserting the entries in wire order: the last duplicate of a key wins -/
def dedupLast {κ ν : Type} (key : κ → Bytes) : List (κ × ν) → List (κ × ν)
  | [] => []
  | e :: rest => if rest.any (fun e' => key e'.1 == key e.1) then dedupLast key rest else e :: dedupLast key rest

/-- entries in the encoder's order: descending by sort key -/
def sortDesc {κ ν : Type} (key : κ → Bytes) (es : List (κ × ν)) : List (κ × ν) :=
  es.mergeSort fun a b => !(bytesLt (key a.1) (key b.1))

/-- canonical representation of the Go map holding the entries `es` (any enumeration order, duplicates: last wins) -/
def canonMap {κ ν : Type} (key : κ → Bytes) (es : List (κ × ν)) : List (κ × ν) := sortDesc key (dedupLast key es)

/-- one map entry: key then value -/
def decEntry {κ ν : Type} (kd : Bytes → D κ) (vd : Bytes → D ν) (bs : Bytes) : D (κ × ν) :=
  match kd bs with
  | .error e => .error e
  | .ok (x, r) =>
    match vd r with
    | .error e => .error e
    | .ok (y, r') => .ok ((x, y), r')

/-- `count > bound` -/
def overBound : Option Nat → Nat → Bool
  | some b, n => decide (n > b)
  | none, _ => false

def Ty.dec (K : Bytes → Option Bytes) : (t : Ty) → Bytes → D t.Val
  | .leaf l g, bs => l.decG K g bs
  | .pair a b, bs =>
    match a.dec K bs with
    | .error e => .error e
    | .ok (x, r) =>
      match b.dec K r with
      | .error e => .error e
      | .ok (y, r') => .ok ((x, y), r')
  | .list o t, bs =>
    match decCnt o.cnt bs with
    | .error e => .error e
    | .ok (n, r) =>
      if overBound o.bound n then .error .reject
      else if o.alloc.panics n then .error .panic
      else if o.signedLoop && n ≥ 2 ^ 63 then .ok ([], r)
      else
        match decList (t.dec K) n r with
        | .error e => .error e
        | .ok (xs, r') => .ok (match o.clamp with | some k => xs.take k | none => xs, r')
  | .map c k kg v ord, bs =>
    match decCnt c bs with
    | .error e => .error e
    | .ok (n, r) =>
      match decList (decEntry (k.decG K kg) (v.dec K)) n r with
      | .error e => .error e
      | .ok (es, r') => .ok (canonMap (k.sortKey ord) es, r')

/-! ## Well-formed values: exactly what the encoder can faithfully write -/

def Leaf.WF (K : Bytes → Option Bytes) : (l : Leaf) → l.Val → Prop
  | .varbytes, v => v.length < 2 ^ 64
  | .fixed n, v => v.length = n
  | .key, v => v.length < 2 ^ 64 ∧ K v = some v            -- a valid key in canonical serialization
  | .bigint, v => (beBytes v).length < 2 ^ 64
  | .optFixed n, v => v.length = n
  | .optString, v => v.length < 2 ^ 64
  | .optBytes, v => v.length < 2 ^ 64
  | _, _ => True

def strictDesc {κ ν : Type} (key : κ → Bytes) (es : List (κ × ν)) : Prop :=
  es.Pairwise fun a b => bytesLt (key b.1) (key a.1) = true

def Ty.WF (K : Bytes → Option Bytes) : (t : Ty) → t.Val → Prop
  | .leaf l g, v => l.WF K v ∧ g.ok (l.measure v) = true
  | .pair a b, (x, y) => a.WF K x ∧ b.WF K y
  | .list o t, vs =>
    let vs : List t.Val := vs
    vs.length < o.cnt.max ∧ overBound o.bound vs.length = false ∧ o.alloc.panics vs.length = false ∧
    (o.signedLoop = true → vs.length < 2 ^ 63) ∧ (∀ k, o.clamp = some k → vs.length ≤ k) ∧ ∀ x ∈ vs, t.WF K x
  | .map c k kg v ord, es =>
    let es : List (k.Val × v.Val) := es
    es.length < c.max ∧ strictDesc (k.sortKey ord) es ∧
    ∀ e ∈ es, (k.WF K e.1 ∧ kg.ok (k.measure e.1) = true) ∧ v.WF K e.2

/-! ## Executable well-formedness test (sound for `WF`: `Poly.Proofs.Schema.Ty.wfb_sound`) -/

def Leaf.wfb (K : Bytes → Option Bytes) : (l : Leaf) → l.Val → Bool
  | .varbytes, v => decide (List.length (α := UInt8) v < 2 ^ 64)
  | .fixed n, v => decide (List.length (α := UInt8) v = n)
  | .key, v => decide (List.length (α := UInt8) v < 2 ^ 64) && (K v == some v)
  | .bigint, v => decide ((beBytes v).length < 2 ^ 64)
  | .optFixed n, v => decide (List.length (α := UInt8) v = n)
  | .optString, v => decide (List.length (α := UInt8) v < 2 ^ 64)
  | .optBytes, v => decide (List.length (α := UInt8) v < 2 ^ 64)
  | _, _ => true

def strictDescB {κ ν : Type} (key : κ → Bytes) : List (κ × ν) → Bool
  | [] => true
  | e :: rest => rest.all (fun e' => bytesLt (key e'.1) (key e.1)) && strictDescB key rest

def Ty.wfb (K : Bytes → Option Bytes) : (t : Ty) → t.Val → Bool
  | .leaf l g, v => l.wfb K v && g.ok (l.measure v)
  | .pair a b, (x, y) => a.wfb K x && b.wfb K y
  | .list o t, vs =>
    decide (List.length (α := t.Val) vs < o.cnt.max) && !overBound o.bound (List.length (α := t.Val) vs) &&
    !o.alloc.panics (List.length (α := t.Val) vs) &&
    (!o.signedLoop || decide (List.length (α := t.Val) vs < 2 ^ 63)) &&
    (match o.clamp with | some k => decide (List.length (α := t.Val) vs ≤ k) | none => true) &&
    List.all (α := t.Val) vs (t.wfb K)
  | .map c k kg v ord, es =>
    decide (List.length (α := k.Val × v.Val) es < c.max) && strictDescB (k.sortKey ord) (es : List (k.Val × v.Val)) &&
    List.all (α := k.Val × v.Val) es (fun e => k.wfb K e.1 && kg.ok (k.measure e.1) && v.wfb K e.2)

/-! ## Syntactic side conditions -/

/-- every leaf reports truncation (no eof-ignoring tail) -/
def Leaf.strict : Leaf → Bool
  | .optFixed _ | .optString | .optBytes => false
  | _ => true

def Ty.strict : Ty → Bool
  | .leaf l _ => l.strict
  | .pair a b => a.strict && b.strict
  | .list _ t => t.strict
  | .map _ k _ v _ => k.strict && v.strict

/-- no decoder allocates from an attacker-supplied count without a bound that keeps `makeslice` from panicking -/
def Ty.noUnboundedPrealloc : Ty → Bool
  | .leaf _ _ => true
  | .pair a b => a.noUnboundedPrealloc && b.noUnboundedPrealloc
  | .list o t =>
    t.noUnboundedPrealloc &&
    (match o.alloc with
     | .append => true
     | .prealloc sz =>
       let lim := match o.bound with | some b => min b (o.cnt.max - 1) | none => o.cnt.max - 1
       !(Alloc.prealloc sz).panics lim)
  | .map _ _ _ v _ => v.noUnboundedPrealloc

/-- every element encoding is non-empty (so an element loop over a huge count stops at the end of the input) -/
def Leaf.minLen : Leaf → Nat
  | .u8 => 1 | .u16 => 2 | .u32 => 4 | .u64 => 8 | .i64 => 8 | .bool => 1 | .varuint => 1 | .varbytes => 1
  | .fixed n => n | .key => 1 | .bigint => 1 | .optFixed _ => 0 | .optString => 0 | .optBytes => 0

end Poly.Model.Schema
