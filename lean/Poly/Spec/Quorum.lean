/- Quorum arithmetic: the formulas the properties name, over Nat. -/
namespace Poly.Spec.Quorum

/-- Tolerated faults for N validators. -/
def f (N : Nat) : Nat := (N - 1) / 3
/-- Block-acceptance threshold N - floor((N-1)/3). -/
def thrA (N : Nat) : Nat := N - (N - 1) / 3
/-- Governance threshold ceil(2N/3), written as the node writes it. -/
def thrG (N : Nat) : Nat := (2 * N + 2) / 3
/-- Legacy block-acceptance threshold N - floor(6N/7). -/
def thrLegacy (N : Nat) : Nat := N - (6 * N) / 7
/-- The mathematical ceiling of 2N/3: the least k with 3k ≥ 2N. -/
def IsCeilTwoThirds (N k : Nat) : Prop := 2 * N ≤ 3 * k ∧ ∀ j, 2 * N ≤ 3 * j → k ≤ j

end Poly.Spec.Quorum
