/-
RFC 6962 Merkle tree hash, audit path and consistency proof over a list of LEAF HASHES, plus the
level-by-level ("paired") presentation of the same tree and binary hash trees over leaf data.
Core-only. The hash function `H` is a parameter everywhere.
-/
namespace Poly.Spec.RFC6962

abbrev Hash := List UInt8

/-- Two different inputs with the same hash. Soundness theorems have the shape `accept → fact ∨ Collision H`
and construct the pair. -/
def Collision (H : List UInt8 → List UInt8) : Prop := ∃ x y, x ≠ y ∧ H x = H y

/-- All hash values are 32 bytes (true of SHA-256; `common.Uint256` in the code). Needed wherever
`H (1 :: l ++ r) = H (1 :: l' ++ r')` must be split into `l = l'` and `r = r'`. -/
def HashLen (H : List UInt8 → List UInt8) : Prop := ∀ x, (H x).length = 32

section
variable (H : List UInt8 → List UInt8)

/-- `TreeHasher.hash_empty` -/
def hashEmpty : Hash := H []
/-- `TreeHasher.hash_leaf` / `HashLeaf`: `sha256(0x00 ‖ data)` -/
def hashLeaf (d : List UInt8) : Hash := H (0 :: d)
/-- `TreeHasher.hash_children` / `HashChildren`: `sha256(0x01 ‖ left ‖ right)` -/
def hashChildren (l r : Hash) : Hash := H (1 :: (l ++ r))

/-! ### Split point: the largest power of two strictly smaller than `n` (for `n ≥ 2`) -/

def splitAux : Nat → Nat → Nat → Nat
  | 0, k, _ => k
  | f + 1, k, n => if 2 * k < n then splitAux f (2 * k) n else k

def splitPoint (n : Nat) : Nat := splitAux n 1 n

def IsPow2 (k : Nat) : Prop := ∃ j, k = 2 ^ j

theorem splitAux_spec (f k n : Nat) (hk : IsPow2 k) (hkn : k < n) (hf : n ≤ k * 2 ^ f) :
    IsPow2 (splitAux f k n) ∧ splitAux f k n < n ∧ n ≤ 2 * splitAux f k n := by
  induction f generalizing k with
  | zero => simp at hf; omega
  | succ f ih =>
    unfold splitAux
    split
    · apply ih
      · obtain ⟨j, rfl⟩ := hk; exact ⟨j + 1, by rw [Nat.pow_succ]; omega⟩
      · assumption
      · rw [Nat.pow_succ] at hf
        calc n ≤ k * (2 ^ f * 2) := hf
          _ = 2 * k * 2 ^ f := by rw [Nat.mul_comm (2 ^ f) 2, ← Nat.mul_assoc, Nat.mul_comm k 2]
    · exact ⟨hk, hkn, by omega⟩

theorem splitPoint_spec (n : Nat) (hn : 2 ≤ n) :
    IsPow2 (splitPoint n) ∧ splitPoint n < n ∧ n ≤ 2 * splitPoint n :=
  splitAux_spec n 1 n ⟨0, rfl⟩ (by omega) (by have := @Nat.lt_two_pow_self n; omega)

theorem splitPoint_lt (n : Nat) (hn : 2 ≤ n) : splitPoint n < n := (splitPoint_spec n hn).2.1

theorem splitPoint_pos (n : Nat) : 0 < splitPoint n := by
  have h : ∀ f k, 0 < k → 0 < splitAux f k n := by
    intro f; induction f with
    | zero => intro k hk; simpa [splitAux]
    | succ f ih => intro k hk; unfold splitAux; split
                   · exact ih _ (by omega)
                   · exact hk
  exact h n 1 (by omega)

theorem pow2_lt_cases {a b : Nat} (h : a < b) : 2 * 2 ^ a ≤ 2 ^ b := by
  have : 2 ^ (a + 1) ≤ 2 ^ b := Nat.pow_le_pow_right (by omega) (by omega)
  rw [Nat.pow_succ] at this; omega

/-- The split point is characterised by: power of two, `k < n ≤ 2k`. -/
theorem splitPoint_unique (n k : Nat) (hk : IsPow2 k) (h1 : k < n) (h2 : n ≤ 2 * k) : splitPoint n = k := by
  have hn : 2 ≤ n := by obtain ⟨j, rfl⟩ := hk; have := @Nat.two_pow_pos j; omega
  obtain ⟨⟨a, ha⟩, h3, h4⟩ := splitPoint_spec n hn
  obtain ⟨b, rfl⟩ := hk
  rw [ha] at h3 h4 ⊢
  rcases Nat.lt_trichotomy a b with h | h | h
  · have := pow2_lt_cases h; omega
  · rw [h]
  · have := pow2_lt_cases h; omega

/-! ### MTH over leaf hashes -/

def mth : List Hash → Hash
  | [] => hashEmpty H
  | [x] => x
  | x :: y :: r =>
    let k := splitPoint (r.length + 2)
    hashChildren H (mth ((x :: y :: r).take k)) (mth ((x :: y :: r).drop k))
termination_by l => l.length
decreasing_by
  · have := splitPoint_lt (r.length + 2) (by omega)
    simp only [List.length_take, List.length_cons]; omega
  · have := splitPoint_pos (r.length + 2)
    simp only [List.length_drop, List.length_cons]; omega

theorem mth_nil : mth H [] = hashEmpty H := by rw [mth]
theorem mth_single (x : Hash) : mth H [x] = x := by rw [mth]

theorem mth_split (l : List Hash) (h : 2 ≤ l.length) :
    mth H l = hashChildren H (mth H (l.take (splitPoint l.length))) (mth H (l.drop (splitPoint l.length))) := by
  match l, h with
  | x :: y :: r, _ => rw [mth]; simp only [List.length_cons]

/-- RFC 6962 audit path `PATH(m, D[n])`, lowest sibling first. -/
def path : Nat → List Hash → List Hash
  | _, [] => []
  | _, [_] => []
  | m, x :: y :: r =>
    let l := x :: y :: r
    let k := splitPoint (r.length + 2)
    if m < k then path m (l.take k) ++ [mth H (l.drop k)]
    else path (m - k) (l.drop k) ++ [mth H (l.take k)]
termination_by _ l => l.length
decreasing_by
  · have := splitPoint_lt (r.length + 2) (by omega)
    simp only [List.length_take, List.length_cons]; omega
  · have := splitPoint_pos (r.length + 2)
    simp only [List.length_drop, List.length_cons]; omega

/-- RFC 6962 `SUBPROOF(m, D[n], b)`. -/
def subproof : Nat → List Hash → Bool → List Hash
  | m, l, b =>
    if _h : m < l.length ∧ 2 ≤ l.length then
      let k := splitPoint l.length
      if m ≤ k then subproof m (l.take k) b ++ [mth H (l.drop k)]
      else subproof (m - k) (l.drop k) false ++ [mth H (l.take k)]
    else if b then [] else [mth H l]
termination_by _ l => l.length
decreasing_by
  · have := splitPoint_lt l.length _h.2
    simp only [List.length_take]; omega
  · have := splitPoint_pos l.length
    simp only [List.length_drop]; omega

/-- RFC 6962 consistency proof `PROOF(m, D[n])` (`0 < m ≤ n`). -/
def proof (m : Nat) (l : List Hash) : List Hash := subproof H m l true


/-! ### Frontier and post-order store of the compact tree (specification) -/

/-- `topBit n = splitPoint (n + 1)`: the largest power of two `≤ n` (for `n ≥ 1`). -/
def topBit (n : Nat) : Nat := splitPoint (n + 1)

/-- Roots of the maximal perfect subtrees in the binary decomposition of `|l|`, largest first: what the
compact tree keeps as `hashes`. -/
def frontier : List Hash → List Hash
  | [] => []
  | x :: r => mth H ((x :: r).take (topBit (r.length + 1))) :: frontier ((x :: r).drop (topBit (r.length + 1)))
termination_by l => l.length
decreasing_by
  have := splitPoint_pos (r.length + 1 + 1)
  simp only [List.length_drop, List.length_cons, topBit]; omega

/-- Post-order of all nodes of the perfect tree over `2^j` leaves (leaves included). -/
def perfectPost : List Hash → List Hash
  | [] => []
  | [x] => [x]
  | x :: y :: r =>
    perfectPost ((x :: y :: r).take ((r.length + 2) / 2)) ++ perfectPost ((x :: y :: r).drop ((r.length + 2) / 2))
      ++ [mth H (x :: y :: r)]
termination_by l => l.length
decreasing_by
  · simp only [List.length_take, List.length_cons]; omega
  · simp only [List.length_drop, List.length_cons]; omega

/-- What the hash store holds after appending `l`: the post-orders of the maximal perfect subtrees, in
order. -/
def postorder : List Hash → List Hash
  | [] => []
  | x :: r => perfectPost H ((x :: r).take (topBit (r.length + 1))) ++ postorder ((x :: r).drop (topBit (r.length + 1)))
termination_by l => l.length
decreasing_by
  have := splitPoint_pos (r.length + 1 + 1)
  simp only [List.length_drop, List.length_cons, topBit]; omega

/-! ### Level-by-level presentation: pair adjacent nodes, promote an odd last node unchanged -/

def pairUp : List Hash → List Hash
  | [] => []
  | [a] => [a]
  | a :: b :: r => hashChildren H a b :: pairUp r

/-- Root by repeated pairing (fuel = number of levels still allowed). -/
def levelRoot : Nat → List Hash → Hash
  | _, [] => hashEmpty H
  | _, [x] => x
  | 0, x :: _ => x
  | f + 1, l => levelRoot f (pairUp H l)

/-! ### Binary hash trees over leaf DATA (domain-separated leaves) -/

inductive DTree where
  | leaf (d : List UInt8)
  | node (l r : DTree)

def DTree.root : DTree → Hash
  | .leaf d => hashLeaf H d
  | .node l r => hashChildren H (DTree.root l) (DTree.root r)

def DTree.leaves : DTree → List (List UInt8)
  | .leaf d => [d]
  | .node l r => l.leaves ++ r.leaves

/-- Follow directions from the root: `false` = go to the left child, `true` = go to the right child. -/
def DTree.descend : DTree → List Bool → Option DTree
  | t, [] => some t
  | .leaf _, _ :: _ => none
  | .node l r, b :: bs => if b then r.descend bs else l.descend bs

end
end Poly.Spec.RFC6962
