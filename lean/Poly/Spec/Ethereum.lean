/-!
# The Ethereum specification of the header rules the light client re-implements (C28)

Written from the specification texts, with their own constants (nothing here comes from the Go source):

* difficulty: Yellow Paper (Berlin version and later) §4.3.4, eq. (41)–(46), i.e. EIP-100 (uncle-aware
  adjustment, `// 9`, floor `-99`), EIP-649 / EIP-1234 / EIP-2384 / EIP-3554 / EIP-4345 / EIP-5133 (the "fake block
  number" `max(0, block.number − κ)` with κ = 3 000 000, 5 000 000, 9 000 000, 9 700 000, 10 700 000, 11 400 000);
* gas limit: Yellow Paper eq. (47)–(49) and EIP-1559 (elasticity multiplier at the fork block);
* base fee: EIP-1559 "Specification" (Python reference, `//` is floor division);
* ethash sizes: Ethash appendix `get_cache_size` / `get_full_size` (largest size below the linear bound whose
  quotient by the item size is prime, stepping by two items).

`//` of the Python reference texts is `Int.fdiv` (floor division).
-/
namespace Poly.Spec.Ethereum

/-- Python `//`. -/
abbrev fdiv (a b : Int) : Int := Int.fdiv a b

/-! ## Difficulty -/

def minimumDifficulty : Int := 131072        -- D₀
def difficultyBoundDivisor : Int := 2048
def bombPeriod : Int := 100000

/-- `D(H) = max(D₀, P(H)_d + x·ς₂) + ε` with `x = ⌊P(H)_d / 2048⌋`,
`ς₂ = max(y − ⌊(H_s − P(H)_s)/9⌋, −99)`, `y = 2` if the parent has uncles else `1`,
`ε = ⌊2^(⌊H'_i / 100000⌋ − 2)⌋`, `H'_i = max(H_i − κ, 0)`, `H_i = P(H)_i + 1`. -/
def difficulty (kappa : Int) (parentDifficulty : Int) (parentHasUncles : Bool) (parentNumber : Int)
    (parentTime time : Int) : Int :=
  let x := fdiv parentDifficulty difficultyBoundDivisor
  let y : Int := if parentHasUncles then 2 else 1
  let sigma2 := max (y - fdiv (time - parentTime) 9) (-99)
  let hi := parentNumber + 1
  let hi' := max (hi - kappa) 0
  let periods := fdiv hi' bombPeriod
  let eps : Int := if periods ≥ 2 then 2 ^ (periods - 2).toNat else 0    -- ⌊2^(periods−2)⌋
  max minimumDifficulty (parentDifficulty + x * sigma2) + eps

/-- Bomb-delay eras from Muir Glacier on. -/
inductive Era where
  | muirGlacier | london | arrowGlacier | grayGlacier
  deriving Repr, DecidableEq

/-- κ of EIP-2384, EIP-3554, EIP-4345, EIP-5133. -/
def Era.kappa : Era → Int
  | .muirGlacier => 9000000
  | .london => 9700000
  | .arrowGlacier => 10700000
  | .grayGlacier => 11400000

/-- Main-net activation blocks (EIP-2387, EIP-3554/London, EIP-4345, EIP-5133). `none`: before Muir Glacier. -/
def mainnetEra (blockNumber : Nat) : Option Era :=
  if blockNumber ≥ 15050000 then some .grayGlacier
  else if blockNumber ≥ 13773000 then some .arrowGlacier
  else if blockNumber ≥ 12965000 then some .london
  else if blockNumber ≥ 9200000 then some .muirGlacier
  else none

/-- Ropsten activation blocks (Muir Glacier 7 117 117, London 10 499 401; no later delay on Ropsten). -/
def ropstenEra (blockNumber : Nat) : Option Era :=
  if blockNumber ≥ 10499401 then some .london
  else if blockNumber ≥ 7117117 then some .muirGlacier
  else none

/-! ## Gas limit -/

def gasLimitBoundDivisor : Nat := 1024
def minGasLimit : Nat := 5000
def elasticityMultiplier : Nat := 2

/-- Yellow Paper (47)–(49): `H_l < P(H)_l + ⌊P(H)_l/1024⌋ ∧ H_l > P(H)_l − ⌊P(H)_l/1024⌋ ∧ H_l ≥ 5000`. -/
def GasLimitOk (parentGasLimit gasLimit : Nat) : Prop :=
  gasLimit < parentGasLimit + parentGasLimit / gasLimitBoundDivisor ∧
  gasLimit + parentGasLimit / gasLimitBoundDivisor > parentGasLimit ∧     -- H_l > P(H)_l − ⌊P(H)_l/1024⌋
  gasLimit ≥ minGasLimit

/-- EIP-1559: at the fork block the parent gas limit is first multiplied by the elasticity multiplier. -/
def eip1559ParentGasLimit (parentIsLondon : Bool) (parentGasLimit : Nat) : Nat :=
  if parentIsLondon then parentGasLimit else parentGasLimit * elasticityMultiplier

/-! ## Base fee (EIP-1559) -/

def initialBaseFee : Int := 1000000000
def baseFeeMaxChangeDenominator : Int := 8

/-- `expected_base_fee_per_gas` of the EIP-1559 reference; `parentIsLondon = false` is the fork block. -/
def baseFee (parentIsLondon : Bool) (parentBaseFee : Int) (parentGasLimit parentGasUsed : Nat) : Int :=
  if !parentIsLondon then initialBaseFee
  else
    let parentGasTarget : Int := fdiv parentGasLimit elasticityMultiplier
    if (parentGasUsed : Int) = parentGasTarget then parentBaseFee
    else if (parentGasUsed : Int) > parentGasTarget then
      let gasUsedDelta := (parentGasUsed : Int) - parentGasTarget
      let delta := max (fdiv (fdiv (parentBaseFee * gasUsedDelta) parentGasTarget) baseFeeMaxChangeDenominator) 1
      parentBaseFee + delta
    else
      let gasUsedDelta := parentGasTarget - (parentGasUsed : Int)
      let delta := fdiv (fdiv (parentBaseFee * gasUsedDelta) parentGasTarget) baseFeeMaxChangeDenominator
      parentBaseFee - delta

/-! ## Ethash sizes -/

def IsPrime (n : Nat) : Prop := 2 ≤ n ∧ ∀ d, d ∣ n → d = 1 ∨ d = n

def epochLength : Nat := 30000
def datasetBytesInit : Nat := 1073741824     -- 2^30
def datasetBytesGrowth : Nat := 8388608      -- 2^23
def cacheBytesInit : Nat := 16777216         -- 2^24
def cacheBytesGrowth : Nat := 131072         -- 2^17
def mixBytes : Nat := 128
def hashBytes : Nat := 64

/-- The result of `sz = init + growth·epoch − item; while not isprime(sz / item): sz -= 2·item`:
`sz` is reached from the linear bound in steps of two items, its item count is prime, and no size in between has a
prime item count. -/
def IsEthashSize (init growth item epoch sz : Nat) : Prop :=
  (∃ k, sz + 2 * item * k = init + growth * epoch - item) ∧
  IsPrime (sz / item) ∧
  ∀ sz' k', sz < sz' → sz' + 2 * item * k' = init + growth * epoch - item → ¬ IsPrime (sz' / item)

def IsDatasetSize (blockNumber sz : Nat) : Prop :=
  IsEthashSize datasetBytesInit datasetBytesGrowth mixBytes (blockNumber / epochLength) sz

def IsCacheSize (blockNumber sz : Nat) : Prop :=
  IsEthashSize cacheBytesInit cacheBytesGrowth hashBytes (blockNumber / epochLength) sz

/-! ## Header hash pre-image -/

/-- Yellow Paper eq. for `L_H(H)`: parentHash, ommersHash, beneficiary, stateRoot, transactionsRoot, receiptsRoot,
logsBloom, difficulty, number, gasLimit, gasUsed, timestamp, extraData, mixHash, nonce — under the names of the Go
struct; EIP-1559 appends `base_fee_per_gas` from the fork block on. -/
def headerFieldOrder : List String :=
  ["ParentHash", "UncleHash", "Coinbase", "Root", "TxHash", "ReceiptHash", "Bloom", "Difficulty", "Number",
   "GasLimit", "GasUsed", "Time", "Extra", "MixDigest", "Nonce"]

/-- The proof-of-work seal hash is over the header without mixHash and nonce (Yellow Paper `H_n̸`). -/
def sealFieldOrder : List String :=
  ["ParentHash", "UncleHash", "Coinbase", "Root", "TxHash", "ReceiptHash", "Bloom", "Difficulty", "Number",
   "GasLimit", "GasUsed", "Time", "Extra"]

def eip1559Field : String := "BaseFee"

end Poly.Spec.Ethereum
