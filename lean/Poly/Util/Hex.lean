/- Hex and line-protocol helpers shared by the drivers (core-only). -/
namespace Poly.Hex

def hexDigit (n : UInt8) : Char :=
  if n < 10 then Char.ofNat (48 + n.toNat) else Char.ofNat (87 + n.toNat)

def toHex (bs : List UInt8) : String :=
  String.ofList (bs.flatMap fun (b : UInt8) => [hexDigit (b >>> 4), hexDigit (b &&& 0xf)])

def hexVal (c : Char) : Option UInt8 :=
  if '0' ≤ c ∧ c ≤ '9' then some (c.toNat - 48).toUInt8
  else if 'a' ≤ c ∧ c ≤ 'f' then some (c.toNat - 87).toUInt8
  else if 'A' ≤ c ∧ c ≤ 'F' then some (c.toNat - 55).toUInt8
  else none

def ofHexChars : List Char → Option (List UInt8)
  | [] => some []
  | [_] => none
  | a :: b :: rest => do
    let x ← hexVal a
    let y ← hexVal b
    let r ← ofHexChars rest
    pure ((x <<< 4 ||| y) :: r)

/-- "-" denotes the empty byte string in the line protocol. -/
def ofHex (s : String) : Option (List UInt8) :=
  if s == "-" then some [] else ofHexChars s.toList

def showHex (bs : List UInt8) : String := if bs.isEmpty then "-" else toHex bs

end Poly.Hex
