import Poly.Util.Hex
/- Line protocol of the correspondence drivers: one outcome line per op line; `#case` resets the state. -/
namespace Poly.Proto

partial def loop {σ : Type} (inp out : IO.FS.Stream) (init : σ) (step : σ → List String → σ × String) (s : σ) : IO Unit := do
  let line ← inp.getLine
  if line.isEmpty then return ()
  let l := line.trimAscii.toString
  if l.startsWith "#case" then
    out.putStrLn "#"
    loop inp out init step init
  else
    let toks := (l.splitOn " ").filter (· ≠ "")
    let (s', o) := step s toks
    out.putStrLn o
    loop inp out init step s'

def run {σ : Type} (init : σ) (step : σ → List String → σ × String) : IO Unit := do
  let inp ← IO.getStdin
  let out ← IO.getStdout
  loop inp out init step init
  out.flush

def natOf (s : String) : Nat := s.toNat?.getD 0

def bytesOf (s : String) : List UInt8 := (Hex.ofHex s).getD []

end Poly.Proto
