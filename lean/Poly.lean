import Poly.Util.Sha256
import Poly.Util.Hex
