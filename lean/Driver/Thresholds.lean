import Poly.Generated.Thresholds
/- Sweep driver: evaluates every generated threshold definition on the same (a, b) grid as the Go program
   that holds the source expressions verbatim. Validates the translator's rendering of Go arithmetic. -/
open Poly.Generated.Thresholds

def main (args : List String) : IO Unit := do
  let lo := (args[0]!).toInt!
  let hi := (args[1]!).toInt!
  let out ← IO.getStdout
  let mut a := lo
  while a ≤ hi do
    for b in [a, a - 1, a + 1, Int.tdiv (2 * a) 3, Int.tdiv (2 * a + 2) 3, Int.tdiv a 3, 3 * a, 0] do
      out.putStrLn (String.intercalate " " (toString a :: toString b :: sweepEval a b))
    a := a + 1
  out.flush
