import Poly.Generated.Thresholds
import Poly.Util.Proto
import Poly.Model.Quorum
/- Sweep driver: evaluates every generated threshold definition on the same (a, b) grid as the Go program
   that holds the source expressions verbatim (validates the translator's rendering of Go arithmetic), and the
   `quorum` family: the behaviour the generated definitions predict for the real ledgers (first approval count
   at which they fire; m of the operator address). -/
open Poly.Generated.Thresholds
open Poly

open Poly.Model.Quorum

def quorumStep (_ : Unit) (toks : List String) : Unit × String :=
  match toks with
  | ["fire", site, ns] =>
    let n := Proto.natOf ns
    let r : Option Int :=
      if site == "nodemgr" then some (firstFire (fun k => nodemgr_CheckConsensusSigns0 k n) n)
      else if site == "vote" then some (firstFire (fun k => vote_CheckVotes0 k n) n)
      else if site == "sigmgr" then some (firstFire (fun k => sigmgr_CheckSigns1 k n && !(sigmgr_CheckSigns0 k n)) n)
      else none
    ((), match r with | some v => toString v | none => "bad-op")
  | ["opaddr", _, ns] =>
    let n := Proto.natOf ns
    -- MULTI_SIG_MAX_PUBKEY_SIZE = 16: above it the program encoder fails and the empty address is returned
    if n > 16 then ((), "empty-address")
    else ((), toString (types_AddressFromBookkeepers0 n))
  | _ => ((), "bad-op")

def main (args : List String) : IO Unit := do
  match args with
  | ["quorum"] => Proto.run () quorumStep
  | [los, his] =>
    let lo := los.toInt!
    let hi := his.toInt!
    let out ← IO.getStdout
    let mut a := lo
    while a ≤ hi do
      for b in [a, a - 1, a + 1, Int.tdiv (2 * a) 3, Int.tdiv (2 * a + 2) 3, Int.tdiv a 3, 3 * a, 0] do
        out.putStrLn (String.intercalate " " (toString a :: toString b :: sweepEval a b))
      a := a + 1
    out.flush
  | _ => IO.eprintln "usage: drv_thresholds quorum | drv_thresholds <lo> <hi>"
