import Poly.Util.Proto
import Poly.Util.Sha256
import Poly.Model.KeyShape
import Poly.Model.CCMVote
import Poly.Model.CCMGenesis
import Poly.Generated.KeyShapes
/- Driver for the cross-chain-manager families. `drv_ccm <family>` reads op lines on stdin. -/
open Poly

namespace KeysDrv
open Poly.Model.KeyShape

/-- state: the block overlay's write set as the model sees it -/
def step (st : Store) (toks : List String) : Store × String :=
  let pfx := Poly.Generated.KeyShapes.storagePrefix
  match toks with
  | "put" :: _ :: c :: v :: fs =>
    match Hex.ofHex c, Hex.ofHex v, fs.mapM Hex.ofHex with
    | some c, some v, some fs =>
      let memdb := cacheRun pfx [CacheOp.put (concatKey c fs) v]
      let st' := commit memdb st
      let k := pfx :: concatKey c fs
      (st', if st.get k == some v then "unchanged" else Hex.showHex k)
    | _, _, _ => (st, "bad-op")
  | "del" :: _ :: c :: fs =>
    match Hex.ofHex c, fs.mapM Hex.ofHex with
    | some c, some fs =>
      let memdb := cacheRun pfx [CacheOp.delete (concatKey c fs)]
      let st' := commit memdb st
      let k := pfx :: concatKey c fs
      (st', if st.get k == some [] then "unchanged" else Hex.showHex k)
    | _, _ => (st, "bad-op")
  | "hold" :: _ :: c :: rest =>
    let fa := rest.takeWhile (· != "/")
    let fb := (rest.dropWhile (· != "/")).drop 1
    match Hex.ofHex c, fa.mapM Hex.ofHex, fb.mapM Hex.ofHex with
    | some c, some fa, some fb => (st, Hex.showHex (concatKey c fa) ++ " " ++ Hex.showHex (concatKey c fb))
    | _, _, _ => (st, "bad-op")
  | "par" :: _ => (st, "ok")
  | "get" :: _ :: c :: fs =>
    match Hex.ofHex c, fs.mapM Hex.ofHex with
    | some c, some fs =>
      match st.get (pfx :: concatKey c fs) with
      | some v => (st, if v.isEmpty then "nil" else Hex.showHex v)
      | none => (st, "nil")
    | _, _ => (st, "bad-op")
  | _ => (st, "bad-op")

end KeysDrv

namespace CcmDrv
open Poly.Model.CCM

structure DState where
  s : State VoteAux
  height : Nat
  testNet : Bool

def init : DState := ⟨⟨[], [], [], [], ⟨[], []⟩⟩, 100, false⟩

def val (tok : String) : String := ((tok.splitOn "=").drop 1 |> "=".intercalate)

def opId : Nat := 1000

/-- signer token → signer id; the operator of a single consensus peer is that peer -/
def sid (nCons : Nat) (t : String) : Nat :=
  if t == "op" then (if nCons == 1 then 0 else opId) else Proto.natOf t

def signers (nCons : Nat) (csv : String) : List Nat :=
  if csv == "-" then [] else (csv.splitOn ",").map (sid nCons)

def showOutcome : Outcome → String
  | .ok => "ok"
  | .okPending => "ok-pending"
  | .okDelegated => "ok-delegated"
  | .reject c => "reject:" ++ c
  | .panic => "panic"

def H := Poly.Sha256.sha256

def step (d : DState) (toks : List String) : DState × String :=
  let nCons := d.s.aux.consensus.length
  match toks with
  | ["peers", a, _] => ({ d with s := { d.s with aux := { d.s.aux with consensus := List.range (Proto.natOf a) } } }, "ok")
  | ["net", n] => ({ d with testNet := n == "test" }, "ok")
  | ["height", h] => ({ d with height := Proto.natOf h }, "ok")
  | ["eventlog", _] => (d, "ok")
  | "conc" :: _ => (d, "ok")
  | ["reg", c, r] => ({ d with s := Poly.Model.CCM.step H (voteOracles H) d.s (.register (Proto.natOf c) (Proto.natOf r)) }, "ok")
  | ["unreg", c] => ({ d with s := Poly.Model.CCM.step H (voteOracles H) d.s (.unregister (Proto.natOf c)) }, "ok")
  | ["black", _, s, c] =>
    let (o, s') := blackChain d.s ((signers nCons (val s)).contains (sid nCons "op")) (Proto.natOf c)
    ({ d with s := s' }, showOutcome o)
  | ["dryblack", _, s, c] =>
    (d, showOutcome (blackChain d.s ((signers nCons (val s)).contains (sid nCons "op")) (Proto.natOf c)).1)
  | ["drywhite", _, s, c] =>
    (d, showOutcome (whiteChain d.s ((signers nCons (val s)).contains (sid nCons "op")) (Proto.natOf c)).1)
  | ["white", _, s, c] =>
    let (o, s') := whiteChain d.s ((signers nCons (val s)).contains (sid nCons "op")) (Proto.natOf c)
    ({ d with s := s' }, showOutcome o)
  | "ethsetup" :: _ => (d, "ok")
  | ["dput", c, id] =>
    let m := (Proto.natOf c, Proto.bytesOf id)
    ({ d with s := { d.s with done := if m ∈ d.s.done then d.s.done else m :: d.s.done } }, "ok")
  | ["dcheck", c, id] => (d, if (Proto.natOf c, Proto.bytesOf id) ∈ d.s.done then "done" else "free")
  | "import" :: _ :: th :: s :: rl :: src :: h :: _ :: _ :: ex :: pv :: dec :: fields =>
    let decoded : Option MakeTxParam :=
      match dec, fields with
      | "dec=1", [a, b, c, to, e, m, g] =>
        some ⟨Proto.bytesOf a, Proto.bytesOf b, Proto.bytesOf c, Proto.natOf to, Proto.bytesOf e, Proto.bytesOf m, Proto.bytesOf g⟩
      | _, _ => none
    let srcN := Proto.natOf (val src)
    let inp : VoteInput := {
      src := srcN, signers := signers nCons (val s),
      relayer := if val rl == "bad" then none else some (sid nCons (val rl)),
      height := Proto.natOf (val h), extra := Proto.bytesOf (val ex), decoded := decoded,
      proofValid := val pv == "1" }
    let env : Env := { height := d.height, mainNet := !d.testNet,
                       doneGate := !d.testNet || d.height ≥ 19954185, txHash := Proto.bytesOf (val th) }
    let res := importExTransfer H (voteOracles H) env d.s srcN inp
    let s' := res.state
    let done := match decoded with
      | some p => if (srcN, p.crossChainID) ∈ s'.done then "1" else "0"
      | none => "-"
    let req := match decoded with
      | some p => match s'.requests.lookup (p.toChainID, env.txHash) with
        | some v => Hex.showHex v
        | none => "-"
      | none => "-"
    let xh := if res.crossHashes.isEmpty then "-" else ",".intercalate (res.crossHashes.map Hex.toHex)
    let new := (s'.requests.filter fun kv => (d.s.requests.lookup kv.1).isNone).length
    ({ d with s := s' }, s!"{showOutcome res.outcome} done={done} req={req} xh={xh} new={new}")
  | _ => (d, "bad-op")

end CcmDrv

namespace BlockDrv
open Poly.Model.CCM CcmDrv

def splitSpecs (toks : List String) : List (List String) :=
  let rec go (acc cur : List (List String) × List String) : List String → List (List String)
    | [] => (acc.1 ++ [acc.2])
    | t :: r => if t == ";;" then go (acc.1 ++ [acc.2], []) cur r else go (acc.1, acc.2 ++ [t]) cur r
  go ([], []) ([], []) toks

def tokenOf (pre : String) (out : String) : String :=
  match (out.splitOn " ").find? (·.startsWith pre) with
  | some t => (t.drop pre.length).toString
  | none => "-"

/-- one block: the transactions in order on the model; per transaction only success / pending / failure is reported
(`ExecuteBlock` gives no error text), the records are read after the whole block -/
def step (d : DState) (toks : List String) : DState × String :=
  match toks with
  | "blk" :: h :: rest =>
    let d0 := { d with height := Proto.natOf (val h) }
    let specs := splitSpecs rest
    let (d1, outs, xhs, n) := specs.foldl (fun (acc : DState × List String × List String × Nat) sp =>
      let (dd, outs, xhs, n) := acc
      let (dd', o) := CcmDrv.step dd sp
      let cls := (o.splitOn " ").headD ""
      let shown := if cls == "ok" || cls == "ok-pending" then cls else "fail"
      let isImp := sp.headD "" == "import"
      if isImp && cls == "ok" then (dd', outs ++ [shown], xhs ++ [tokenOf "xh=" o], n + 1)
      else (dd', outs ++ [shown], xhs, n)) (d0, [], [], 0)
    -- observations after the block
    let obs := specs.filterMap fun sp =>
      match sp with
      | "import" :: _ :: th :: _ :: _ :: src :: _ :: _ :: _ :: _ :: _ :: "dec=1" :: [_, ccid, _, to, _, _, _] =>
        let srcN := Proto.natOf (val src)
        let done := if (srcN, Proto.bytesOf ccid) ∈ d1.s.done then "1" else "0"
        let req := match d1.s.requests.lookup (Proto.natOf to, Proto.bytesOf (val th)) with
          | some v => Hex.showHex v
          | none => "-"
        some (done, req)
      | _ => none
    let join (l : List String) := if l.isEmpty then "-" else ",".intercalate l
    (d1, " | ".intercalate outs ++ " || done=" ++ join (obs.map (·.1)) ++ " req=" ++ join (obs.map (·.2)) ++
      " xh=" ++ join xhs ++ s!" new={n}")
  | _ => CcmDrv.step d toks

end BlockDrv

namespace GenesisDrv
open Poly.Model.Genesis

structure DState where
  s : GState
  reg : List (Nat × Nat)
  height : Nat
  mainNet : Bool
  nCons : Nat

def init : DState := ⟨[], [], 100, true, 0⟩

def field (toks : List String) (k : String) : String :=
  match toks.find? (fun t => t.startsWith (k ++ "=")) with
  | some t => CcmDrv.val t
  | none => ""

def showG : GOutcome → String
  | .ok => "ok"
  | .reject c => "reject:" ++ c

def step (d : DState) (toks : List String) : DState × String :=
  match toks with
  | ["peers", a, _] => ({ d with nCons := Proto.natOf a }, "ok")
  | ["height", h] => ({ d with height := Proto.natOf h }, "ok")
  | ["net", n] => ({ d with mainNet := n == "main" }, "ok")
  | ["reg", c, name] =>
    match routers.find? (·.name == name) with
    | some spec => ({ d with reg := (Proto.natOf c, spec.router) :: d.reg.filter (·.1 != Proto.natOf c) }, "ok")
    | none => (d, "bad-op")
  | "install" :: rest =>
    let chain := Proto.natOf (field rest "chain")
    let g := field rest "g"
    let witness := (CcmDrv.signers d.nCons (field rest "s")).contains (CcmDrv.sid d.nCons "op")
    let genesis : Option Nat := if g.startsWith "bad" then none else some (Proto.natOf g)
    let (o, s') := entrance routers (fun c => d.reg.lookup c) d.mainNet d.height d.s chain witness genesis
    let shown := if g.startsWith "bad" && g.length > 3 && (o == .reject "genesis" || o == .reject "installed")
      then "reject:refused" else showG o
    ({ d with s := s' }, s!"{shown} changed={if s' == d.s then 0 else 1}")
  | "sync" :: _ => (d, "reject changed=0")
  | _ => (d, "bad-op")

end GenesisDrv

def main (args : List String) : IO Unit :=
  match args with
  | ["keys"] => Proto.run ([] : Poly.Model.KeyShape.Store) KeysDrv.step
  | ["ccm"] => Proto.run CcmDrv.init CcmDrv.step
  | ["genesis"] => Proto.run GenesisDrv.init GenesisDrv.step
  | ["ccmblock"] => Proto.run CcmDrv.init BlockDrv.step
  | _ => IO.eprintln "usage: drv_ccm <family>"
