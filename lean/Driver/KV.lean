import Poly.Util.Sha256
import Poly.Util.Proto
import Poly.Model.KV
import Poly.Model.KVLayers
import Poly.Model.KVArena
import Poly.Model.KVStateRoot
import Poly.Model.IncVal
/- Driver for the key/value families. `drv_kv <family>` reads op lines on stdin (see harness/cmd/hkv). -/
open Poly
open Poly.Model.KV

namespace KVDrv

def showEnts (l : Entries) : String :=
  if l.isEmpty then "[]" else ",".intercalate (l.map fun e => Hex.showHex e.1 ++ ":" ++ Hex.showHex e.2)

/-- `nil` = nil slice, `-` = empty non-nil, otherwise hex. -/
def optKey (s : String) : Option Key := if s == "nil" then none else some (Proto.bytesOf s)

def sliceOf : List String → Option Range
  | [s, l] => some { start := optKey s, limit := optKey l }
  | _ => none

end KVDrv

/-! ### family memdb (C09) -/
namespace MemdbDrv
open KVDrv

structure St where
  db : MemDB := {}
  iters : List (Nat × Iter) := []

def getIter (s : St) (id : Nat) : Iter := ((s.iters.find? (·.1 == id)).map (·.2)).getD (Iter.new none)
def setIter (s : St) (id : Nat) (it : Iter) : St := { s with iters := (id, it) :: s.iters.filter (·.1 != id) }

def showIt (r : Iter × Bool) : String :=
  (if r.2 then "t " else "f ") ++ Hex.showHex r.1.key ++ " " ++ Hex.showHex r.1.value ++
  (if r.1.valid then " valid" else " invalid") ++ (if r.1.err then " err" else " noerr")

def stepIt (s : St) (id : String) (f : Iter → Entries → Iter × Bool) : St × String :=
  let i := Proto.natOf id
  let r := f (getIter s i) s.db.ents
  (setIter s i r.1, showIt r)

def step (s : St) (toks : List String) : St × String :=
  match toks with
  | ["put", k, v] => ({ s with db := s.db.put (Proto.bytesOf k) (Proto.bytesOf v) }, "ok")
  | ["del", k] => ({ s with db := s.db.delete (Proto.bytesOf k) }, "ok")
  | ["get", k] =>
    (s, match s.db.get (Proto.bytesOf k) with
        | .known v => "known:" ++ Hex.showHex v
        | .knownAbsent => "absent"
        | .unknown => "unknown")
  | ["find", k] =>
    (s, match findGE (Proto.bytesOf k) s.db.ents with
        | some e => Hex.showHex e.1 ++ " " ++ Hex.showHex e.2
        | none => "notfound")
  | ["len"] => (s, s!"n={s.db.n} size={s.db.kvSize}")
  | ["foreach"] => (s, showEnts s.db.ents)
  | ["reset"] => ({ db := s.db.reset, iters := [] }, "ok")
  | "iter" :: id :: rest =>
    let sl := if rest == ["noslice"] then none else sliceOf rest
    (setIter s (Proto.natOf id) (Iter.new sl), "ok")
  | ["first", id] => stepIt s id Iter.first
  | ["last", id] => stepIt s id Iter.last
  | ["next", id] => stepIt s id Iter.next
  | ["prev", id] => stepIt s id Iter.prev
  | ["seek", id, k] => stepIt s id (fun it m => it.seek m (Proto.bytesOf k))
  | ["release", id] =>
    let i := Proto.natOf id
    (setIter s i (getIter s i).release, "ok")
  | "scan" :: rest =>
    let sl := if rest == ["noslice"] then none else sliceOf rest
    (s, showEnts (scanFwd sl s.db.ents))
  | "rscan" :: rest =>
    let sl := if rest == ["noslice"] then none else sliceOf rest
    (s, showEnts (scanBwd sl s.db.ents))
  | _ => (s, "bad-op")

end MemdbDrv

/-! ### family arena (C09, arena refinement) -/
namespace ArenaDrv
open KVDrv

def dump (a : Arena) : String :=
  let ps := a.chain a.nd.length 0
  let chain := if ps.isEmpty then "-" else
    ",".intercalate (ps.map fun p => s!"{p}:{a.cell p}:{a.cell (p+1)}:{a.cell (p+2)}:{a.cell (p+3)}")
  s!"kvlen={a.kv.length} ndlen={a.nd.length} n={a.n} size={a.kvSize} kv={Hex.showHex a.kv} chain={chain}"

def step (a : Arena) (toks : List String) : Arena × String :=
  match toks with
  | ["put", k, v, h] => (a.put (Proto.bytesOf k) (Proto.bytesOf v) (Proto.natOf h), "ok")
  | ["del", k, h] => (a.put (Proto.bytesOf k) [] (Proto.natOf h), "ok")
  | ["reset"] => ({}, "ok")
  | ["get", k] =>
    (a, match a.get (Proto.bytesOf k) with
        | .known v => "known:" ++ Hex.showHex v
        | .knownAbsent => "absent"
        | .unknown => "unknown")
  | ["dump"] => (a, dump a)
  | _ => (a, "bad-op")

end ArenaDrv

/-! ### family layers (C10) -/
namespace LayersDrv
open KVDrv

structure St where
  ov : Overlay := {}
  cache : CacheDB := {}
  /-- open OverlayDB iterator: JoinIter state + the store snapshot taken by `NewIterator` -/
  oj : Option (OvIter × Entries) := none
  /-- open CacheDB iterator -/
  cj : Option (CacheIter × Entries) := none

def runScript {σ : Type} (O : Ops σ) (s : σ) (script : String) : String :=
  let rec go (cs : List Char) (s : σ) (acc : List String) : List String :=
    match cs with
    | [] => acc.reverse
    | c :: r =>
      let res := if c == 'F' then O.first s else O.next s
      go r res.1 (((if res.2 then "t " else "f ") ++ Hex.showHex (O.key res.1) ++ " " ++ Hex.showHex (O.value res.1)) :: acc)
  " | ".intercalate (go script.toList s [])

/-- The operations of an open OverlayDB iterator *now*: the buffer side reads the current buffer, the store side
the snapshot. -/
def liveOvOps (s : St) (snap : Entries) : Ops OvIter :=
  Join.ops (iterOps s.ov.mem.ents) (iterOps snap) (s.ov.mem.ents.length + snap.length + 2)

def liveCacheOps (s : St) (snap : Entries) : Ops CacheIter :=
  Join.ops (iterOps s.cache.mem.ents) (liveOvOps s snap) (s.cache.mem.ents.length + s.ov.mem.ents.length + snap.length + 2)

def showStep {σ : Type} (O : Ops σ) (r : σ × Bool) (strip : Bool) : String :=
  let k := if strip then stripKey (O.key r.1) else O.key r.1
  if r.2 then "t " ++ Hex.showHex k ++ " " ++ Hex.showHex (O.value r.1) else "f"

def stripOps (O : Ops CacheIter) : Ops CacheIter := { O with key := fun s => stripKey (O.key s) }

def step (s : St) (toks : List String) : St × String :=
  let b := Proto.bytesOf
  match toks with
  | ["sput", k, v] => ({ s with ov := { s.ov with store := s.ov.store.put (b k) (b v) } }, "ok")
  | ["sdel", k] => ({ s with ov := { s.ov with store := s.ov.store.delete (b k) } }, "ok")
  | ["sget", k] => (s, match s.ov.store.get (b k) with | some v => Hex.showHex v | none => "notfound")
  | ["sscan", p] => (s, showEnts (scanFwd (some (bytesPrefix (b p))) s.ov.store.data))
  | ["oput", k, v] => ({ s with ov := s.ov.put (b k) (b v) }, "ok")
  | ["odel", k] => ({ s with ov := s.ov.delete (b k) }, "ok")
  | ["oget", k] => (s, Hex.showHex (s.ov.get (b k)))
  | ["oscan", p] => (s, showEnts (s.ov.scan (b p)))
  | ["oit", p, sc] => (s, runScript s.ov.iterOps (Overlay.newIterator (b p)) sc)
  | ["ofail", p, k, sc] =>
    -- JoinIter over the overlay buffer and a store iterator that fails at its k-th positioning call
    let A := iterOps s.ov.mem.ents
    let B := faultyOps (iterOps s.ov.store.data)
    let fuel := s.ov.mem.ents.length + s.ov.store.data.length + 2
    let j₀ : Join Iter (Faulty Iter) :=
      { mem := Iter.new (some (bytesPrefix (b p))), back := { inner := Iter.new (some (bytesPrefix (b p))), failAt := Proto.natOf k } }
    let rec go (cs : List Char) (j : Join Iter (Faulty Iter)) (acc : List String) : List String :=
      match cs with
      | [] => acc.reverse
      | c :: r =>
        let res := if c == 'F' then Join.FirstE A B (·.err) Faulty.failed fuel j else Join.NextE A B (·.err) Faulty.failed fuel j
        let e := if Join.err (·.err) Faulty.failed res.1 then "E" else "-"
        go r res.1 (((if res.2 then "t " else "f ") ++ Hex.showHex res.1.key ++ " " ++ Hex.showHex res.1.value ++ " " ++ e) :: acc)
    (s, " | ".intercalate (go sc.toList j₀ []))
  | ["ocommit"] =>
    match ({ s.ov with store := s.ov.store.newBatch }).commitTo with
    | some o => ({ s with ov := { o with store := o.store.batchCommit } }, "ok")
    | none => (s, "panic")
  | ["ocommitnobatch"] =>
    match s.ov.commitTo with
    | some o => ({ s with ov := o }, "ok")
    | none => (s, "panic")
  | ["ojopen", p] => ({ s with oj := some (Overlay.newIterator (b p), s.ov.store.data) }, "ok")
  | ["ojfirst"] =>
    match s.oj with
    | some (it, snap) => let r := (liveOvOps s snap).first it; ({ s with oj := some (r.1, snap) }, showStep (liveOvOps s snap) r false)
    | none => (s, "closed")
  | ["ojnext"] =>
    match s.oj with
    | some (it, snap) => let r := (liveOvOps s snap).next it; ({ s with oj := some (r.1, snap) }, showStep (liveOvOps s snap) r false)
    | none => (s, "closed")
  | ["cjopen", p] => ({ s with cj := some (CacheDB.newIterator (b p), s.ov.store.data) }, "ok")
  | ["cjfirst"] =>
    match s.cj with
    | some (it, snap) => let r := (liveCacheOps s snap).first it; ({ s with cj := some (r.1, snap) }, showStep (liveCacheOps s snap) r true)
    | none => (s, "closed")
  | ["cjnext"] =>
    match s.cj with
    | some (it, snap) => let r := (liveCacheOps s snap).next it; ({ s with cj := some (r.1, snap) }, showStep (liveCacheOps s snap) r true)
    | none => (s, "closed")
  | ["oreset"] => ({ s with ov := s.ov.reset, oj := none, cj := none }, "ok")
  | ["cput", k, v] => ({ s with cache := s.cache.put (b k) (b v) }, "ok")
  | ["cdel", k] => ({ s with cache := s.cache.delete (b k) }, "ok")
  | ["cget", k] => (s, Hex.showHex (s.cache.get s.ov (b k)))
  | ["cscan", p] => (s, showEnts (s.cache.scan s.ov (b p)))
  | ["cit", p, sc] => (s, runScript (stripOps (s.cache.iterOps s.ov)) (CacheDB.newIterator (b p)) sc)
  | ["ccommit"] => ({ s with ov := s.cache.commit s.ov }, "ok")
  | ["creset"] => ({ s with cache := s.cache.reset, cj := none }, "ok")
  | _ => (s, "bad-op")

end LayersDrv

/-! ### family digest (C11) -/
namespace DigestDrv
open KVDrv

def parseWrite (t : String) : Key × Val :=
  if t.endsWith "!" then (Proto.bytesOf (t.dropEnd 1).toString, [])
  else match t.splitOn "=" with
    | [k, v] => (Proto.bytesOf k, Proto.bytesOf v)
    | _ => ([], [])

def parseTxs (toks : List String) : List Tx :=
  let rec go (toks : List String) (cur : List (Key × Val)) (acc : List Tx) : List Tx :=
    match toks with
    | [] => acc.reverse
    | "|" :: r => go r [] ({ writes := cur.reverse, ok := true } :: acc)
    | "x" :: r => go r [] ({ writes := cur.reverse, ok := false } :: acc)
    | t :: r => go r (parseWrite t :: cur) acc
  go toks [] []

def showRes (m : Entries) : String := "h=" ++ Hex.showHex (changeHash Sha256.sha256 m) ++ " ws=" ++ showEnts m

def step (_ : Unit) (toks : List String) : Unit × String :=
  match toks with
  | "seq" :: ws =>
    let o := (ws.map parseWrite).foldl (fun (o : Overlay) w => if w.2.isEmpty then o.delete w.1 else o.put w.1 w.2) {}
    ((), showRes o.mem.ents)
  | "txs" :: ts => ((), showRes (runBlock {} (parseTxs ts)).mem.ents)
  | "blk" :: ts => ((), showRes (runBlock {} (parseTxs ts)).mem.ents)
  | _ => ((), "bad-op")

end DigestDrv

/-! ### family stateroot (C11, delta_root_fn) -/
namespace StateRootDrv
open KVDrv Poly.Model.Merkle

structure St where
  tree : CompactTree := emptyTree
  pending : Option (List UInt8) := none

def showE (r : Except Err Poly.Spec.RFC6962.Hash) : String := match r with | .ok h => Hex.showHex h | .error e => e.name

def step (s : St) (toks : List String) : St × String :=
  match toks with
  | ["ledger", root0] => ({ tree := ⟨1, [Proto.bytesOf root0]⟩, pending := none }, "ok")
  | "exec" :: ts =>
    let d := blockDigest Sha256.sha256 (DigestDrv.parseTxs ts)
    ({ s with pending := some d }, "h=" ++ Hex.showHex d ++ " root=" ++ showE (predictedStateRoot Sha256.sha256 s.tree d))
  | ["commit"] =>
    match s.pending with
    | none => (s, "nothing-to-commit")
    | some d =>
      match addStateRoot Sha256.sha256 s.tree d with
      | .ok (t', r) => ({ tree := t', pending := none }, "recorded=" ++ Hex.showHex r)
      | .error e => (s, e.name)
  | _ => (s, "bad-op")

end StateRootDrv

/-! ### family incval (C38) -/
namespace IncValDrv
open Poly.Model.IncVal

def intOf (s : String) : Int := s.toInt?.getD 0
def h32 (s : String) : Nat := Proto.natOf s % W

def step (s : IncVal) (toks : List String) : IncVal × String :=
  match toks with
  | ["new", m] => (new (intOf m), "ok")
  | "add" :: h :: txs =>
    let s' := s.addBlock (h32 h) (txs.map Proto.natOf)
    (s', s!"{s'.blockRange.1} {s'.blockRange.2}")
  | ["verify", t, st] =>
    (s, match s.verify (Proto.natOf t) (h32 st) with | .ok => "ok" | .dup => "dup" | .errStart => "err")
  | ["range"] => (s, s!"{s.blockRange.1} {s.blockRange.2}")
  | ["clean"] => (s.clean, "ok")
  | _ => (s, "bad-op")

/-- family stateful: `ledger` = transactions of all committed blocks, `cached` = those committed since the ledger
was last opened, `ok` = the stores are open. -/
structure StatefulSt where
  ledger : List TxId := []
  cached : List TxId := []
  ok : Bool := true

def stepStateful (s : StatefulSt) (toks : List String) : StatefulSt × String :=
  match toks with
  | ["ledger"] => ({}, "ok")
  | "commit" :: _ :: txs => ({ s with ledger := s.ledger ++ txs.map Proto.natOf, cached := s.cached ++ txs.map Proto.natOf }, "ok")
  | ["reopen"] => ({ s with cached := [], ok := true }, "ok")
  | ["closestore"] => ({ s with ok := false }, "ok")
  | ["check", i] =>
    (s, match statefulCheckE s.cached s.ledger s.ok (Proto.natOf i) with | .dup => "dup" | .ok => "ok" | .unknown => "unknown")
  | _ => (s, "bad-op")

end IncValDrv

def main (args : List String) : IO Unit :=
  match args with
  | ["memdb"] => Proto.run ({} : MemdbDrv.St) MemdbDrv.step
  | ["arena"] => Proto.run ({} : Arena) ArenaDrv.step
  | ["layers"] => Proto.run ({} : LayersDrv.St) LayersDrv.step
  | ["digest"] => Proto.run () DigestDrv.step
  | ["blockdigest"] => Proto.run () DigestDrv.step
  | ["stateroot"] => Proto.run ({} : StateRootDrv.St) StateRootDrv.step
  | ["incval"] => Proto.run ({} : Poly.Model.IncVal.IncVal) IncValDrv.step
  | ["stateful"] => Proto.run ({} : IncValDrv.StatefulSt) IncValDrv.stepStateful
  | _ => IO.eprintln "usage: drv_kv <family>"
