import Poly.Util.Sha256
import Poly.Util.Proto
import Poly.Model.KV
import Poly.Model.KVLayers
import Poly.Model.IncVal
/- Driver for the key/value families. `drv_kv <family>` reads op lines on stdin (see harness/cmd/hkv). -/
open Poly
open Poly.Model.KV

namespace KVDrv

def showEnts (l : Entries) : String :=
  if l.isEmpty then "[]" else ",".intercalate (l.map fun e => Hex.showHex e.1 ++ ":" ++ Hex.showHex e.2)

/-- `nil` = nil slice, `-` = empty non-nil, otherwise hex. -/
def optKey (s : String) : Option Key := if s == "nil" then none else some (Proto.bytesOf s)

def sliceOf : List String → Option Range
  | [s, l] => some { start := optKey s, limit := optKey l }
  | _ => none

end KVDrv

/-! ### family memdb (C09) -/
namespace MemdbDrv
open KVDrv

structure St where
  db : MemDB := {}
  iters : List (Nat × Iter) := []

def getIter (s : St) (id : Nat) : Iter := ((s.iters.find? (·.1 == id)).map (·.2)).getD (Iter.new none)
def setIter (s : St) (id : Nat) (it : Iter) : St := { s with iters := (id, it) :: s.iters.filter (·.1 != id) }

def showIt (r : Iter × Bool) : String :=
  (if r.2 then "t " else "f ") ++ Hex.showHex r.1.key ++ " " ++ Hex.showHex r.1.value ++
  (if r.1.valid then " valid" else " invalid") ++ (if r.1.err then " err" else " noerr")

def stepIt (s : St) (id : String) (f : Iter → Entries → Iter × Bool) : St × String :=
  let i := Proto.natOf id
  let r := f (getIter s i) s.db.ents
  (setIter s i r.1, showIt r)

def step (s : St) (toks : List String) : St × String :=
  match toks with
  | ["put", k, v] => ({ s with db := s.db.put (Proto.bytesOf k) (Proto.bytesOf v) }, "ok")
  | ["del", k] => ({ s with db := s.db.delete (Proto.bytesOf k) }, "ok")
  | ["get", k] =>
    (s, match s.db.get (Proto.bytesOf k) with
        | .known v => "known:" ++ Hex.showHex v
        | .knownAbsent => "absent"
        | .unknown => "unknown")
  | ["find", k] =>
    (s, match findGE (Proto.bytesOf k) s.db.ents with
        | some e => Hex.showHex e.1 ++ " " ++ Hex.showHex e.2
        | none => "notfound")
  | ["len"] => (s, s!"n={s.db.n} size={s.db.kvSize}")
  | ["foreach"] => (s, showEnts s.db.ents)
  | ["reset"] => ({ db := s.db.reset, iters := [] }, "ok")
  | "iter" :: id :: rest =>
    let sl := if rest == ["noslice"] then none else sliceOf rest
    (setIter s (Proto.natOf id) (Iter.new sl), "ok")
  | ["first", id] => stepIt s id Iter.first
  | ["last", id] => stepIt s id Iter.last
  | ["next", id] => stepIt s id Iter.next
  | ["prev", id] => stepIt s id Iter.prev
  | ["seek", id, k] => stepIt s id (fun it m => it.seek m (Proto.bytesOf k))
  | ["release", id] =>
    let i := Proto.natOf id
    (setIter s i (getIter s i).release, "ok")
  | "scan" :: rest =>
    let sl := if rest == ["noslice"] then none else sliceOf rest
    (s, showEnts (scanFwd sl s.db.ents))
  | "rscan" :: rest =>
    let sl := if rest == ["noslice"] then none else sliceOf rest
    (s, showEnts (scanBwd sl s.db.ents))
  | _ => (s, "bad-op")

end MemdbDrv

/-! ### family layers (C10) -/
namespace LayersDrv
open KVDrv

structure St where
  ov : Overlay := {}
  cache : CacheDB := {}

def runScript {σ : Type} (O : Ops σ) (s : σ) (script : String) : String :=
  let rec go (cs : List Char) (s : σ) (acc : List String) : List String :=
    match cs with
    | [] => acc.reverse
    | c :: r =>
      let res := if c == 'F' then O.first s else O.next s
      go r res.1 (((if res.2 then "t " else "f ") ++ Hex.showHex (O.key res.1) ++ " " ++ Hex.showHex (O.value res.1)) :: acc)
  " | ".intercalate (go script.toList s [])

def stripOps (O : Ops CacheIter) : Ops CacheIter := { O with key := fun s => stripKey (O.key s) }

def step (s : St) (toks : List String) : St × String :=
  let b := Proto.bytesOf
  match toks with
  | ["sput", k, v] => ({ s with ov := { s.ov with store := s.ov.store.put (b k) (b v) } }, "ok")
  | ["sdel", k] => ({ s with ov := { s.ov with store := s.ov.store.delete (b k) } }, "ok")
  | ["sget", k] => (s, match s.ov.store.get (b k) with | some v => Hex.showHex v | none => "notfound")
  | ["sscan", p] => (s, showEnts (scanFwd (some (bytesPrefix (b p))) s.ov.store.data))
  | ["oput", k, v] => ({ s with ov := s.ov.put (b k) (b v) }, "ok")
  | ["odel", k] => ({ s with ov := s.ov.delete (b k) }, "ok")
  | ["oget", k] => (s, Hex.showHex (s.ov.get (b k)))
  | ["oscan", p] => (s, showEnts (s.ov.scan (b p)))
  | ["oit", p, sc] => (s, runScript s.ov.iterOps (Overlay.newIterator (b p)) sc)
  | ["ocommit"] =>
    match ({ s.ov with store := s.ov.store.newBatch }).commitTo with
    | some o => ({ s with ov := { o with store := o.store.batchCommit } }, "ok")
    | none => (s, "panic")
  | ["ocommitnobatch"] =>
    match s.ov.commitTo with
    | some o => ({ s with ov := o }, "ok")
    | none => (s, "panic")
  | ["oreset"] => ({ s with ov := s.ov.reset }, "ok")
  | ["cput", k, v] => ({ s with cache := s.cache.put (b k) (b v) }, "ok")
  | ["cdel", k] => ({ s with cache := s.cache.delete (b k) }, "ok")
  | ["cget", k] => (s, Hex.showHex (s.cache.get s.ov (b k)))
  | ["cscan", p] => (s, showEnts (s.cache.scan s.ov (b p)))
  | ["cit", p, sc] => (s, runScript (stripOps (s.cache.iterOps s.ov)) (CacheDB.newIterator (b p)) sc)
  | ["ccommit"] => ({ s with ov := s.cache.commit s.ov }, "ok")
  | ["creset"] => ({ s with cache := s.cache.reset }, "ok")
  | _ => (s, "bad-op")

end LayersDrv

/-! ### family digest (C11) -/
namespace DigestDrv
open KVDrv

def parseWrite (t : String) : Key × Val :=
  if t.endsWith "!" then (Proto.bytesOf (t.dropEnd 1).toString, [])
  else match t.splitOn "=" with
    | [k, v] => (Proto.bytesOf k, Proto.bytesOf v)
    | _ => ([], [])

def parseTxs (toks : List String) : List Tx :=
  let rec go (toks : List String) (cur : List (Key × Val)) (acc : List Tx) : List Tx :=
    match toks with
    | [] => acc.reverse
    | "|" :: r => go r [] ({ writes := cur.reverse, ok := true } :: acc)
    | "x" :: r => go r [] ({ writes := cur.reverse, ok := false } :: acc)
    | t :: r => go r (parseWrite t :: cur) acc
  go toks [] []

def showRes (m : Entries) : String := "h=" ++ Hex.showHex (changeHash Sha256.sha256 m) ++ " ws=" ++ showEnts m

def step (_ : Unit) (toks : List String) : Unit × String :=
  match toks with
  | "seq" :: ws =>
    let o := (ws.map parseWrite).foldl (fun (o : Overlay) w => if w.2.isEmpty then o.delete w.1 else o.put w.1 w.2) {}
    ((), showRes o.mem.ents)
  | "txs" :: ts => ((), showRes (runBlock {} (parseTxs ts)).mem.ents)
  | "blk" :: ts => ((), showRes (runBlock {} (parseTxs ts)).mem.ents)
  | _ => ((), "bad-op")

end DigestDrv

/-! ### family incval (C38) -/
namespace IncValDrv
open Poly.Model.IncVal

def intOf (s : String) : Int := s.toInt?.getD 0
def h32 (s : String) : Nat := Proto.natOf s % W

def step (s : IncVal) (toks : List String) : IncVal × String :=
  match toks with
  | ["new", m] => (new (intOf m), "ok")
  | "add" :: h :: txs =>
    let s' := s.addBlock (h32 h) (txs.map Proto.natOf)
    (s', s!"{s'.blockRange.1} {s'.blockRange.2}")
  | ["verify", t, st] =>
    (s, match s.verify (Proto.natOf t) (h32 st) with | .ok => "ok" | .dup => "dup" | .errStart => "err")
  | ["range"] => (s, s!"{s.blockRange.1} {s.blockRange.2}")
  | ["clean"] => (s.clean, "ok")
  | _ => (s, "bad-op")

/-- family stateful: the ledger is the set of transactions of the committed blocks. -/
def stepStateful (l : List TxId) (toks : List String) : List TxId × String :=
  match toks with
  | ["ledger"] => ([], "ok")
  | "commit" :: _ :: txs => (l ++ txs.map Proto.natOf, "ok")
  | ["check", i] => (l, match statefulCheck l (Proto.natOf i) with | .dup => "dup" | _ => "ok")
  | _ => (l, "bad-op")

end IncValDrv

def main (args : List String) : IO Unit :=
  match args with
  | ["memdb"] => Proto.run ({} : MemdbDrv.St) MemdbDrv.step
  | ["layers"] => Proto.run ({} : LayersDrv.St) LayersDrv.step
  | ["digest"] => Proto.run () DigestDrv.step
  | ["blockdigest"] => Proto.run () DigestDrv.step
  | ["incval"] => Proto.run ({} : Poly.Model.IncVal.IncVal) IncValDrv.step
  | ["stateful"] => Proto.run ([] : List Nat) IncValDrv.stepStateful
  | _ => IO.eprintln "usage: drv_kv <family>"
