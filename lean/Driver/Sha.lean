import Poly.Util.Sha256
import Poly.Util.Hex
open Poly

partial def loop (h : IO.FS.Stream) (out : IO.FS.Stream) : IO Unit := do
  let line ← h.getLine
  if line.isEmpty then return ()
  let l := line.trimAscii.toString
  match Hex.ofHex l with
  | some bs => out.putStrLn (Hex.toHex (Sha256.sha256 bs))
  | none => out.putStrLn "bad-op"
  loop h out

def main : IO Unit := do loop (← IO.getStdin) (← IO.getStdout)
