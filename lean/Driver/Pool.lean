import Poly.Util.Proto
import Poly.Model.Pool
/- Driver for the transaction-pool families (C37). `drv_pool <family>` reads op lines on stdin. -/
open Poly
open Poly.Model.Pool

namespace PoolDrv

abbrev P := Pool Nat

def splitOnChar (s : String) (c : Char) : List String := s.splitOn (String.singleton c)

def parseIds (s : String) : List Nat :=
  if s == "-" then [] else (splitOnChar s ',').map Proto.natOf

def parseAttrs (s : String) : List Attr :=
  if s == "-" then []
  else (splitOnChar s ',').map fun a =>
    match splitOnChar a ':' with
    | [k, h, e] => ⟨Proto.natOf h, Proto.natOf k, Proto.natOf e⟩
    | _ => ⟨0, 0, 0⟩

def showIds (l : List Nat) : String :=
  if l.isEmpty then "-" else ",".intercalate (l.map toString)

def showAttrs (l : List Attr) : String :=
  if l.isEmpty then "-" else ",".intercalate (l.map fun a => s!"{a.kind}:{a.height}:{a.err}")

def bstr (b : Bool) : String := if b then "true" else "false"

def stripPrefix (s pre : String) : String := if s.startsWith pre then (s.drop pre.length).toString else s

def sortNat (l : List Nat) : List Nat := l.mergeSort (fun a b => decide (a ≤ b))

/-- witness iteration order for an observed `GetTxPool` result: the reported stale entries first, then the entries
handed out, then everything else in pool order -/
def witnessOrder (p : P) (tx old : List Nat) : List (Entry Nat) :=
  let seen := old ++ tx
  (seen.filterMap (find? p)) ++ p.filter (fun e => !seen.contains e.hash)

def step (p : P) (toks : List String) : P × String :=
  match toks with
  | ["add", id, attrs] =>
    let r := add p ⟨Proto.natOf id, parseAttrs attrs⟩
    (r.1, s!"{bstr r.2} n={r.1.length}")
  | ["del", id] =>
    let r := del p (Proto.natOf id)
    (r.1, s!"{bstr r.2} n={r.1.length}")
  | "clean" :: ids =>
    let q := clean p (ids.map Proto.natOf)
    (q, s!"ok n={q.length}")
  | ["get", b, h, m] =>
    -- the number handed out does not depend on the iteration order
    let r := getTxPool p p (b == "1") (Proto.natOf h) (Proto.natOf m)
    (p, s!"ntx={r.1.length}")
  | ["getobs", b, h, m, tx, old] =>
    let txs := parseIds (stripPrefix tx "tx=")
    let olds := parseIds (stripPrefix old "old=")
    let order := witnessOrder p txs olds
    if order.length != p.length || (sortNat (keys order)) != sortNat (keys p) then (p, "bad:not-a-permutation-of-the-pool")
    else
      let r := getTxPool p order (b == "1") (Proto.natOf h) (Proto.natOf m)
      if keys r.1 == txs && keys r.2 == olds then (p, "ok")
      else (p, s!"bad:model-gives tx={showIds (keys r.1)} old={showIds (keys r.2)}")
  | "unv" :: h :: ids =>
    let r := getUnverified p (ids.map Proto.natOf) (Proto.natOf h)
    let ver := if r.2.ver.isEmpty then "-" else ",".intercalate (r.2.ver.map fun (a, b, c) => s!"{a}:{b}:{c}")
    (r.1, s!"ver={ver} unv={showIds r.2.unv} old={showIds r.2.old} n={r.1.length}")
  | ["remain"] =>
    let r := remain p p
    (r.1, s!"r={showIds (sortNat r.2)} n={r.1.length}")
  | ["has", id] => (p, bstr (has p (Proto.natOf id)))
  | ["status", id] =>
    match find? p (Proto.natOf id) with
    | some e => (p, showAttrs e.attrs)
    | none => (p, "nil")
  | ["count"] => (p, toString p.length)
  | _ => (p, "bad-op")

end PoolDrv

namespace ConcDrv

/-- drop the trailing " n=<size>" of a sequential outcome (a concurrent caller cannot observe the size atomically) -/
def stripSize (o : String) : String :=
  match (o.splitOn " n=") with
  | a :: _ :: _ => a
  | _ => o

/-- `<op> => <recorded result>`: execute the op on the sequential model, print the model's result -/
def step (p : PoolDrv.P) (toks : List String) : PoolDrv.P × String :=
  let op := toks.takeWhile (· ≠ "=>")
  let (q, o) := PoolDrv.step p op
  match op with
  | "count" :: _ => (q, o)
  | _ => (q, stripSize o)

end ConcDrv

namespace OrdDrv

structure St where
  w : WState Nat
  maxTx : Nat

def counts (w : WState Nat) : String := s!"pool={w.pool.length} pending={w.pend.length}"

def step (st : St) (toks : List String) : St × String :=
  match toks with
  | ["ostart", m] => (⟨⟨[], [], 0⟩, Proto.natOf m⟩, "ok")
  | ["osub", id] =>
    let i := Proto.natOf id
    let w := st.w
    let w' := if has w.pool i || w.pend.any (fun p => p.1 == i) then w else { w with pend := w.pend ++ [(i, [])] }
    ({ st with w := w' }, counts w')
  | ["oans", k, h] =>
    let w' := st.w.answer (Proto.natOf k) (Proto.natOf h)
    ({ st with w := w' }, counts w')
  | ["oget", b, h] =>
    let (w', handed) := st.w.getTx st.w.pool (b == "1") (Proto.natOf h) st.maxTx
    ({ st with w := w' }, s!"handed={PoolDrv.showIds (PoolDrv.sortNat (keys handed))} {counts w'}")
  | _ => (st, "bad-op")

end OrdDrv

namespace SrvDrv

/-- MAX_CAPACITY, MAX_LIMITATION come with the `start` op (read from the real constants by the harness). -/
structure St where
  C : Nat
  L : Nat
  s : Srv

def showSt (s : Srv) : String :=
  s!"pool={s.pool} pending={s.pending} slots={s.slots}"

def step (st : St) (toks : List String) : St × String :=
  let upd (s : Srv) : St × String := ({ st with s := s }, showSt s)
  match toks with
  | ["start", c, l, _preexec] =>
    let s := Srv.init (Proto.natOf l)
    (⟨Proto.natOf c, Proto.natOf l, s⟩, showSt s)
  | ["fill", n] => upd (fill st.C st.L (Proto.natOf n) st.s)
  | ["hold"] => (st, "ok")
  | ["pass"] => (st, "ok")
  | ["submit", k] => upd (submitHeld st.C (Proto.natOf k) st.s)
  | ["release"] => upd (backAll st.L (releaseAll st.L st.s))
  | ["saveblock"] => upd (reverifyAll st.s)
  | ["vblock", k] => upd (blockVerified st.L (Proto.natOf k) st.s)
  | ["race-saveblock", _] => (st, "ok")   -- schedule dependent on the real server: only the property oracle looks at it
  | ["state"] => (st, showSt st.s)
  | _ => (st, "bad-op")

end SrvDrv

def main (args : List String) : IO Unit :=
  match args with
  | ["poolord"] => Proto.run (⟨⟨[], [], 0⟩, 0⟩ : OrdDrv.St) OrdDrv.step
  | ["poolsrv"] => Proto.run (⟨0, 0, Srv.init 0⟩ : SrvDrv.St) SrvDrv.step
  | ["pool"] => Proto.run ([] : PoolDrv.P) PoolDrv.step
  | ["poolconc"] => Proto.run ([] : PoolDrv.P) ConcDrv.step
  | _ => IO.eprintln "usage: drv_pool <family>"
