import Poly.Util.Proto
import Poly.Model.Codec
import Poly.Model.SchemaDrvLedger
import Poly.Model.SchemaDrvP2P
import Poly.Model.SchemaDrvRecords
/- Drivers of the codec families. `drv_codec <family>` reads op lines on stdin, one outcome line per op line.
   family `codec` (C01): primitives of ZeroCopySink / ZeroCopySource / serialization.* -/
open Poly
open Poly.Model.Codec

namespace CodecDrv

structure St where
  sink : Bytes := []
  written : List (String × String) := []
  src : Src := ⟨[], 0⟩
  sbuf : Bytes := []

def hex (b : Bytes) : String := Hex.showHex b
def b01 (b : Bool) : String := if b then "1" else "0"

def natTok (s : String) : Option Nat := s.toNat?
def intTok (s : String) : Option Int := s.toInt?

/-- sink bytes of one `w <prim> <val>` -/
def encTok (prim val : String) : Option Bytes :=
  match prim with
  | "u8" => (natTok val).map fun n => wU8 (UInt8.ofNat n)
  | "u16" => (natTok val).map fun n => wU16 (UInt16.ofNat n)
  | "u32" => (natTok val).map fun n => wU32 (UInt32.ofNat n)
  | "u64" => (natTok val).map fun n => wU64 (UInt64.ofNat n)
  | "i16" => (intTok val).map fun n => wI16 (Int16.ofInt n)
  | "i32" => (intTok val).map fun n => wI32 (Int32.ofInt n)
  | "i64" => (intTok val).map fun n => wI64 (Int64.ofInt n)
  | "bool" => if val == "true" then some (wBool true) else if val == "false" then some (wBool false) else none
  | "varuint" => (natTok val).map fun n => wVarUint (UInt64.ofNat n)
  | "varbytes" => (Hex.ofHex val).map wVarBytes
  | "string" => (Hex.ofHex val).map wVarBytes
  | "addr" => (Hex.ofHex val).map wBytes
  | "hash" => (Hex.ofHex val).map wBytes
  | "bytes" => (Hex.ofHex val).map wBytes
  | _ => none

/-- the `size` the Go call reports: returned size for var-uint / var-bytes / string, appended length otherwise -/
def sizeTok (prim val : String) : Nat :=
  match prim with
  | "varuint" => varUintSize (UInt64.ofNat ((natTok val).getD 0))
  | "varbytes" | "string" =>
    let b := (Hex.ofHex val).getD []
    varUintSize (UInt64.ofNat b.length) + b.length
  | _ => ((encTok prim val).getD []).length

/-- streaming writer bytes (none = the streaming codec has no such writer) -/
def streamEncTok (prim val : String) : Option Bytes :=
  match prim with
  | "u8" => (natTok val).map fun n => Stream.wU8 (UInt8.ofNat n)
  | "u16" => (natTok val).map fun n => Stream.wU16 (UInt16.ofNat n)
  | "u32" => (natTok val).map fun n => Stream.wU32 (UInt32.ofNat n)
  | "u64" => (natTok val).map fun n => Stream.wU64 (UInt64.ofNat n)
  | "bool" => if val == "true" then some (Stream.wBool true) else if val == "false" then some (Stream.wBool false) else none
  | "varuint" => (natTok val).map fun n => Stream.wVarUint (UInt64.ofNat n)
  | "varbytes" => (Hex.ofHex val).map Stream.wVarBytes
  | "string" => (Hex.ofHex val).map Stream.wVarBytes
  | "addr" => Hex.ofHex val
  | "hash" => Hex.ofHex val
  | "bytes" => Hex.ofHex val
  | _ => none

def showR {α : Type} (f : α → String) (m : R α) : Option (String × Src × Bool) :=
  m.map fun (v, x, e) => (f v, x, e)

/-- machine read of one primitive; the value is rendered as its op-line token -/
def readTok (prim : String) (arg : String) (x : Src) : Option (String × Src × Bool) :=
  match prim with
  | "u8" => showR (fun v => toString v.toNat) (nextU8 x)
  | "u16" => showR (fun v => toString v.toNat) (nextU16 x)
  | "u32" => showR (fun v => toString v.toNat) (nextU32 x)
  | "u64" => showR (fun v => toString v.toNat) (nextU64 x)
  | "i16" => showR (fun v => toString v.toInt) (nextI16 x)
  | "i32" => showR (fun v => toString v.toInt) (nextI32 x)
  | "i64" => showR (fun v => toString v.toInt) (nextI64 x)
  | "bool" => showR (fun v => if v then "true" else "false") (nextBool x)
  | "varuint" => showR (fun v => toString v.toNat) (nextVarUint x)
  | "varbytes" => showR hex (nextVarBytes x)
  | "string" => showR hex (nextString x)
  | "addr" => showR hex (nextAddress x)
  | "hash" => showR hex (nextHash x)
  | "bytes" => showR hex (nextBytes x (UInt64.ofNat ((natTok arg).getD 0)))
  | _ => none

def showS {α : Type} (f : α → String) (m : Stream.R α) : String × Bytes :=
  match m with
  | (.ok v, r) => (f v, r)
  | (.error e, r) => ("err:" ++ e.name, r)

/-- streaming read of one primitive -/
def sreadTok (prim : String) (arg : String) (bs : Bytes) : String × Bytes :=
  match prim with
  | "u8" => showS (fun v => toString v.toNat) (Stream.readU8 bs)
  | "u16" => showS (fun v => toString v.toNat) (Stream.readU16 bs)
  | "u32" => showS (fun v => toString v.toNat) (Stream.readU32 bs)
  | "u64" => showS (fun v => toString v.toNat) (Stream.readU64 bs)
  | "bool" => showS (fun v => if v then "true" else "false") (Stream.readBool bs)
  | "byte" => showS (fun v => toString v.toNat) (Stream.readByte bs)
  | "varuint" => showS (fun v => toString v.toNat) (Stream.readVarUint (UInt64.ofNat ((natTok arg).getD 0)) bs)
  | "varbytes" => showS hex (Stream.readVarBytes bs)
  | "string" => showS hex (Stream.readVarBytes bs)
  | "addr" => showS hex (Stream.readFixed 20 bs)
  | "hash" => showS hex (Stream.readFixed 32 bs)
  | "bytes" => showS hex (Stream.byteXReader (UInt64.ofNat ((natTok arg).getD 0)) bs)
  | _ => ("bad-op", bs)

/-- does the streaming codec have a reader for this primitive? -/
def hasStream (prim : String) : Bool :=
  prim ∈ ["u8", "u16", "u32", "u64", "bool", "varuint", "varbytes", "string", "addr", "hash"]

/-- truncation points examined by `rt` / `check` (all of them for short strings) -/
def cutPoints (n : Nat) : List Nat :=
  (List.range n).filter fun k => n ≤ 300 || k < 40 || k + 40 ≥ n || k % 9973 == 0

/-- the `rt` property on the model: encode (both codecs), decode `enc ++ suffix` with both readers, every examined
truncation is eof / error. Returns the encoding and the verdict. -/
def rtCheck (prim val : String) (suffix : Bytes) : Option (Bytes × String) := do
  let enc ← encTok prim val
  let mut fails : List String := []
  match streamEncTok prim val with
  | some e2 => if e2 != enc then fails := fails ++ ["stream-differs"]
  | none => pure ()
  let arg := toString enc.length
  match readTok prim arg ⟨enc ++ suffix, 0⟩ with
  | some (v, x, eof) =>
    if v != val || eof || x.off.toNat != enc.length then fails := fails ++ ["roundtrip"]
  | none => fails := fails ++ ["roundtrip"]
  if hasStream prim then
    let (v, r) := sreadTok prim "0" (enc ++ suffix)
    if v != val || r.length != suffix.length then fails := fails ++ ["stream-roundtrip"]
  for k in cutPoints enc.length do
    match readTok prim arg ⟨enc.take k, 0⟩ with
    | some (_, _, eof) => if !eof then fails := fails ++ ["truncation-accepted"]
    | none => fails := fails ++ ["truncation-accepted"]
    if hasStream prim then
      let (v, _) := sreadTok prim "0" (enc.take k)
      if !(v.startsWith "err:") then fails := fails ++ ["stream-truncation-accepted"]
  pure (enc, if fails.isEmpty then "ok" else "FAIL:" ++ ",".intercalate fails.eraseDups)

/-- read the written fields back in order from `bs`; returns the number of fields that decoded to their value without eof,
and whether the field after them reported eof (or there is none) -/
def readSeq (fields : List (String × String)) (x : Src) (n : Nat) : Nat × Bool :=
  match fields with
  | [] => (n, true)
  | (prim, val) :: rest =>
    let arg := toString ((encTok prim val).getD []).length
    match readTok prim arg x with
    | some (v, x', eof) => if eof then (n, true) else if v == val then readSeq rest x' (n + 1) else (n, false)
    | none => (n, false)

/-- `check`: the concatenation property on the current sink -/
def seqCheck (st : St) : String :=
  let fields := st.written
  let total := st.sink.length
  -- end offsets of each field
  let ends := (fields.foldl (fun (acc : List Nat × Nat) (pv : String × String) =>
    let e := acc.2 + ((encTok pv.1 pv.2).getD []).length; (acc.1 ++ [e], e)) ([], 0)).1
  let full := readSeq fields ⟨st.sink, 0⟩ 0
  let okFull := full.1 == fields.length
  let okCuts := (cutPoints total).all fun k =>
    let (n, eofNext) := readSeq fields ⟨st.sink.take k, 0⟩ 0
    let expect := (ends.filter (· ≤ k)).length
    n == expect && eofNext
  (if okFull && okCuts then "ok" else "FAIL") ++ " n=" ++ toString fields.length ++ " len=" ++ toString total

def step (st : St) (toks : List String) : St × String :=
  match toks with
  | ["w", prim, val] =>
    match encTok prim val with
    | some enc =>
      let s := match streamEncTok prim val with
        | some e2 => if e2 == enc then "same" else hex e2
        | none => "na"
      ({ st with sink := st.sink ++ enc, written := st.written ++ [(prim, val)] },
        hex enc ++ " size=" ++ toString (sizeTok prim val) ++ " stream=" ++ s)
    | none => (st, "bad-op")
  | ["load"] => ({ st with src := ⟨st.sink, 0⟩ }, "len=" ++ toString st.sink.length)
  | ["src", h] =>
    match Hex.ofHex h with
    | some b => ({ st with src := ⟨b, 0⟩ }, "len=" ++ toString b.length)
    | none => (st, "bad-op")
  | "r" :: prim :: rest =>
    match readTok prim (rest.headD "0") st.src with
    | some (v, x, eof) => ({ st with src := x }, v ++ " eof=" ++ b01 eof ++ " pos=" ++ toString x.off.toNat ++ " len=" ++ toString x.len.toNat)
    | none => (st, "panic")
  | ["backup", n] =>
    let x := backUp st.src (UInt64.ofNat ((natTok n).getD 0))
    ({ st with src := x }, "pos=" ++ toString x.off.toNat)
  | ["skip", n] =>
    let (x, eof) := skip st.src (UInt64.ofNat ((natTok n).getD 0))
    ({ st with src := x }, "eof=" ++ b01 eof ++ " pos=" ++ toString x.off.toNat)
  | ["sload"] => ({ st with sbuf := st.sink }, "len=" ++ toString st.sink.length)
  | ["ssrc", h] =>
    match Hex.ofHex h with
    | some b => ({ st with sbuf := b }, "len=" ++ toString b.length)
    | none => (st, "bad-op")
  | ["srep", n, h] =>     -- n copies of one byte (large buffers for the 2 MiB path of byteXReader)
    match Hex.ofHex h with
    | some [b] => let n := (natTok n).getD 0; ({ st with sbuf := st.sbuf ++ List.replicate n b }, "len=" ++ toString (st.sbuf.length + n))
    | _ => (st, "bad-op")
  | "sr" :: prim :: rest =>
    let (v, r) := sreadTok prim (rest.headD "0") st.sbuf
    ({ st with sbuf := r }, v ++ " rem=" ++ toString r.length)
  | "reuse" :: mode :: junk :: pvs =>   -- a sink that held junk (Reset / BackUp / dirty buffer) writes what a fresh sink writes
    let rec encAll : List String → Option Bytes
      | [] => some []
      | [_] => none
      | p :: v :: rest => match encTok p v, encAll rest with
        | some a, some b => some (a ++ b)
        | _, _ => none
    match Hex.ofHex junk, encAll pvs with
    | some j, some e => (st, hex ((if mode == "prefix" then j else []) ++ e) ++ " ok")
    | _, _ => (st, "bad-op")
  | "holdsink" :: pvs =>      -- held Bytes()/ToArray results re-checked after later encodings: evaluated on the implementation
    let rec ok : List String → Option Nat
      | [] => some 0
      | [_] => none
      | p :: v :: rest => match encTok p v, ok rest with
        | some _, some n => some (n + 1)
        | _, _ => none
    match ok pvs with
    | some n => (st, "ok k=" ++ toString n)
    | none => (st, "bad-op")
  | "sbig" :: flds =>
    -- several large var-bytes fields written and read back-to-back with the streaming codec (values compared at the end)
    let parsed := flds.filterMap fun t =>
      match t.splitOn ":" with
      | [n, h] => match natTok n, Hex.ofHex h with
        | some n, some [b] => some (n, b)
        | _, _ => none
      | _ => none
    if parsed.length != flds.length then (st, "bad-op")
    else
      let stream := parsed.foldl (fun acc (nb : Nat × UInt8) => acc ++ Stream.wVarBytes (List.replicate nb.1 nb.2)) []
      let rec go (fs : List (Nat × UInt8)) (bs : Bytes) (ok : Bool) : Option (Bool × Bytes) :=
        match fs with
        | [] => some (ok, bs)
        | (n, b) :: rest =>
          match Stream.readVarBytes bs with
          | (.ok v, r) => go rest r (ok && v == List.replicate n b)
          | (.error _, _) => none
      match go parsed stream true with
      | none => (st, "FAIL:read")
      | some (ok, r) => (st, (if ok then "ok" else "FAIL:value-changed-later") ++ " k=" ++ toString parsed.length ++ " rem=" ++ toString r.length)
  | ["rt", prim, val, suffix] =>
    match Hex.ofHex suffix with
    | some suf =>
      match rtCheck prim val suf with
      | some (enc, verdict) => (st, hex enc ++ " " ++ verdict)
      | none => (st, "bad-op")
    | none => (st, "bad-op")
  | ["check"] => (st, seqCheck st)
  | ["safe", op, a, b] =>
    let x := UInt64.ofNat ((natTok a).getD 0)
    let y := UInt64.ofNat ((natTok b).getD 0)
    let r := match op with
      | "add" => safeAdd x y
      | "sub" => safeSub x y
      | _ => safeMul x y
    (st, toString r.1.toNat ++ " " ++ b01 r.2)
  | ["varsize", v] => (st, toString (varUintSize (UInt64.ofNat ((natTok v).getD 0))))
  | _ => (st, "bad-op")

end CodecDrv

def main (args : List String) : IO Unit :=
  match args with
  | ["codec"] => Proto.run ({} : CodecDrv.St) CodecDrv.step
  | ["ledgerobj"] => Proto.run () (fun _ toks => ((), Poly.Model.SchemaDrv.stepLedger toks))
  | ["p2p"] => Proto.run () (fun _ toks => ((), Poly.Model.SchemaDrv.stepP2P toks))
  | ["records"] => Proto.run () (fun _ toks => ((), Poly.Model.SchemaDrv.stepRecords toks))
  | _ => IO.eprintln "usage: drv_codec <family>"
