import Poly.Util.Proto
import Poly.Model.EthRules
import Poly.Model.EthHeaderRlp
import Poly.Model.PoW
import Poly.Model.EthDeposit
import Poly.Model.PoWBtc
import Poly.Model.ProofJson
import Poly.Model.BtcRetarget
/- Driver for the Ethereum light-client families. `drv_eth <family>` reads op lines on stdin.
   ethrules (C28): header rules; pow (C27): PoW fork choice; evm (C23): deposit proof decision. -/
open Poly

namespace EthRulesDrv
open Poly.Model.EthRules Poly.Model.EthHeaderRlp Poly.Generated

def int (s : String) : Int := s.toInt?.getD 0
def nat (s : String) : Nat := s.toNat?.getD 0
def optInt (s : String) : Option Int := if s == "nil" then none else s.toInt?
def optNat (s : String) : Option Nat := if s == "nil" then none else s.toNat?

def showVerdict : Verdict → String
  | .ok => "ok"
  | .reject c => "reject:" ++ c
  | .panic => "panic"

def showOptNat : Option Nat → String
  | some n => toString n
  | none => "none"

/-- number time difficulty uncleEmpty gasLimit gasUsed baseFee -/
def hdrOf : List String → Option Hdr
  | [n, t, d, u, gl, gu, bf] => some ⟨int n, nat t, int d, u == "1", nat gl, nat gu, optInt bf⟩
  | _ => none

def consts : String :=
  let kv : List (String × Int) := [
    ("BIG_1", EthConsts.BIG_1), ("BIG_2", EthConsts.BIG_2), ("BIG_9", EthConsts.BIG_9),
    ("BIG_MINUS_99", EthConsts.BIG_MINUS_99), ("BLOCK_DIFF_FACTOR", EthConsts.BLOCK_DIFF_FACTOR),
    ("BOMB_DELAY", EthConsts.BOMB_DELAY), ("BaseFeeChangeDenominator", EthConsts.BaseFeeChangeDenominator),
    ("DIFF_PERIOD", EthConsts.DIFF_PERIOD), ("DifficultyBoundDivisor", EthConsts.DifficultyBoundDivisor),
    ("ElasticityMultiplier", EthConsts.ElasticityMultiplier), ("GasLimitBoundDivisor", EthConsts.GasLimitBoundDivisor),
    ("InitialBaseFee", EthConsts.InitialBaseFee), ("MaximumExtraDataSize", EthConsts.MaximumExtraDataSize),
    ("MinGasLimit", EthConsts.MinGasLimit), ("MinimumDifficulty", EthConsts.MinimumDifficulty),
    ("allowedFutureBlockTimeSeconds", EthConsts.allowedFutureBlockTime / 1000000000),
    ("big1", EthConsts.big1), ("big2", EthConsts.big2), ("big9", EthConsts.big9), ("bigMinus99", EthConsts.bigMinus99),
    ("cacheGrowthBytes", EthConsts.cacheGrowthBytes), ("cacheInitBytes", EthConsts.cacheInitBytes),
    ("datasetGrowthBytes", EthConsts.datasetGrowthBytes), ("datasetInitBytes", EthConsts.datasetInitBytes),
    ("epochLength", EthConsts.epochLength), ("eth1559:1", Int.ofNat (eth1559Height 1)), ("eth1559:2", Int.ofNat (eth1559Height 2)),
    ("eth1559:77", Int.ofNat (eth1559Height 77)), ("eth4345:1", Int.ofNat (eth4345Height 1)), ("eth4345:2", Int.ofNat (eth4345Height 2)),
    ("eth4345:77", Int.ofNat (eth4345Height 77)),
    ("eth5133:1", Int.ofNat (eth5133Height 1)), ("eth5133:2", Int.ofNat (eth5133Height 2)), ("eth5133:77", Int.ofNat (eth5133Height 77)), ("expDiffPeriod", EthConsts.expDiffPeriod), ("hashBytes", EthConsts.hashBytes),
    ("maxEpoch", EthConsts.maxEpoch), ("mixBytes", EthConsts.mixBytes)]
  " ".intercalate (kv.map fun (k, v) => k ++ "=" ++ toString v)

def fullOf : List String → Option FullHdr
  | [ph, uh, cb, rt, tx, rc, bl, d, n, gl, gu, t, ex, mx, nc, bf] => do
    let ph ← Hex.ofHex ph; let uh ← Hex.ofHex uh; let cb ← Hex.ofHex cb; let rt ← Hex.ofHex rt
    let tx ← Hex.ofHex tx; let rc ← Hex.ofHex rc; let bl ← Hex.ofHex bl
    let ex ← Hex.ofHex ex; let mx ← Hex.ofHex mx; let nc ← Hex.ofHex nc
    some ⟨ph, uh, cb, rt, tx, rc, bl, nat d, nat n, nat gl, nat gu, nat t, ex, mx, nc, optNat bf⟩
  | _ => none

def showOptBytes : Option (List UInt8) → String
  | some b => Hex.showHex b
  | none => "none"

def step (_ : Unit) (toks : List String) : Unit × String :=
  match toks with
  | ["consts"] => ((), consts)
  | ["diff", which, time, ptime, pnum, pdiff, pu] =>
    let p : Hdr := ⟨int pnum, nat ptime, int pdiff, pu == "1", 0, 0, none⟩
    if which == "legacy" then ((), toString (calcLegacy (int time) p))
    else ((), toString (calcWithDelay (int which) (nat time) p))
  | ["fork", id, num, bf] =>
    let h : Hdr := ⟨int num, 0, 0, true, 0, 0, optInt bf⟩
    ((), s!"london={if isLondon (nat id) h then 1 else 0} arrow={if isArrowGlacier (nat id) h then 1 else 0} gray={if isGrayGlacier (nat id) h then 1 else 0}")
  | ["gas", pgl, hgl] => ((), showVerdict (verifyGaslimit (nat pgl) (nat hgl)))
  | ["basefee", id, pnum, pbf, pgl, pgu] =>
    let p : Hdr := ⟨int pnum, 0, 0, true, nat pgl, nat pgu, optInt pbf⟩
    match calcBaseFee (nat id) p with
    | some v => ((), toString v)
    | none => ((), "panic")
  | ["v1559", id, pnum, pbf, pgl, pgu, hnum, hbf, hgl] =>
    let p : Hdr := ⟨int pnum, 0, 0, true, nat pgl, nat pgu, optInt pbf⟩
    let h : Hdr := ⟨int hnum, 0, 0, true, nat hgl, 0, optInt hbf⟩
    ((), showVerdict (verifyEip1559Header (nat id) p h))
  | ["dsize", blk] =>
    let b := nat blk
    ((), s!"{showOptNat (datasetSize b)} {showOptNat (calcDatasetSize (b / EthConsts.epochLength.toNat))}")
  | ["csize", blk] =>
    let b := nat blk
    ((), s!"{showOptNat (cacheSize b)} {showOptNat (calcCacheSize (b / EthConsts.epochLength.toNat))}")
  | ["prime", n] => ((), if isPrime (nat n) then "1" else "0")
  | "hdrrlp" :: rest =>
    match fullOf rest with
    | some f => ((), s!"{showOptBytes (headerRlp f)} {showOptBytes (sealRlp f)}")
    | none => ((), "bad-op")
  | "rules" :: id :: rest =>
    match hdrOf (rest.take 7), hdrOf ((rest.drop 7).take 7), (rest.drop 14) with
    | some p, some h, [extra] => ((), showVerdict (checkRules (nat id) p h (nat extra)))
    | _, _, _ => ((), "bad-op")
  | _ => ((), "bad-op")

end EthRulesDrv

namespace PowDrv
open Poly.Model.EthRules Poly.Model.PoW

/-- rules payload of a header: the fields the header rules read, len(extra), state root -/
abbrev Pay := Poly.Model.EthRules.Hdr × Nat × List UInt8
abbrev PHdr := Poly.Model.PoW.Hdr String Pay

structure St where
  net : Nat := 1
  store : Option (Store String Pay) := none
  genesis : String := ""
  seen : List String := []       -- every hash that ever appeared in an op (candidate keys of the index)
  lo : Nat := 0
  hi : Nat := 0

def validOf (net : Nat) (h p : PHdr) : Bool := checkRules net p.rules.1 h.rules.1 h.rules.2.1 == .ok

/-- hash parent salt number time difficulty uncleEmpty gasLimit gasUsed baseFee extraLen stateRoot (salt is not read) -/
def hdrOf : List String → Option PHdr
  | [hash, parent, _salt, n, t, d, u, gl, gu, bf, ex, root] =>
    let r : Poly.Model.EthRules.Hdr := ⟨EthRulesDrv.int n, EthRulesDrv.nat t, EthRulesDrv.int d, u == "1", EthRulesDrv.nat gl,
      EthRulesDrv.nat gu, EthRulesDrv.optInt bf⟩
    some ⟨hash, parent, EthRulesDrv.nat n, EthRulesDrv.nat d, (r, EthRulesDrv.nat ex, Proto.bytesOf root)⟩
  | _ => none

def chunks12 : List String → List (List String)
  | a :: b :: c :: d :: e :: f :: g :: h :: i :: j :: k :: l :: rest => [a, b, c, d, e, f, g, h, i, j, k, l] :: chunks12 rest
  | [] => []
  | l => [l]

def short (h : String) : String := (h.take 8).toString

def insertSorted (x : String) : List String → List String
  | [] => [x]
  | y :: ys => if x ≤ y then x :: y :: ys else y :: insertSorted x ys

def sortStr (l : List String) : List String := l.foldl (fun acc x => insertSorted x acc) []

def dump (st : St) : String :=
  match st.store with
  | none => "nostate"
  | some s =>
    let idx := sortStr (st.seen.eraseDups.filterMap fun k =>
      (s.index k).map fun e => s!"{short k}:{e.td}:{e.hdr.number}:{short e.hdr.parent}")
    let heights := (List.range (st.hi + 4 - (st.lo - 2))).map (· + (st.lo - 2))
    let main := heights.filterMap fun n => (s.main n).map fun h => s!"{n}:{short h}"
    s!"cur={s.cur} genesis={short st.genesis} main=[{",".intercalate main}] index=[{",".intercalate idx}]"

/-- The class label of the first failing header of a call (the state is folded exactly as `syncCall` does). -/
def failLabel (net : Nat) (s : Store String Pay) : List PHdr → String
  | [] => "ok"
  | h :: rest =>
    let (s', o) := syncHeader (validOf net) s h
    match o with
    | .orphan => "reject:orphan"
    | .badHeight => "reject:height"
    | .noHead => "reject:nohead"
    | .invalid =>
      match s.index h.parent with
      | some pe => EthRulesDrv.showVerdict (checkRules net pe.hdr.rules.1 h.rules.1 h.rules.2.1)
      | none => "reject:orphan"
    | _ => failLabel net s' rest

def step (st : St) (toks : List String) : St × String :=
  match toks with
  | "genesis" :: net :: rest =>
    match hdrOf rest with
    | some g =>
      let st' : St := { net := EthRulesDrv.nat net, store := some (init g), genesis := g.hash, seen := [g.hash],
                        lo := g.number, hi := g.number }
      (st', dump st')
    | none => (st, "bad-op")
  | "sync" :: rest =>
    match st.store, (chunks12 rest).mapM hdrOf with
    | some s, some hs =>
      let (s', outs) := syncCall (validOf st.net) s hs
      let label := if outs.any Outcome.failed then failLabel st.net s hs else "ok"
      let hi := hs.foldl (fun m h => max m h.number) st.hi
      let st' : St := { st with store := some s', seen := st.seen ++ hs.map (·.hash) ++ hs.map (·.parent), hi := hi }
      (st', label ++ " " ++ dump st')
    | _, _ => (st, "bad-op")
  | _ => (st, "bad-op")

end PowDrv

namespace EvmDrv
open Poly.Model.PoW Poly.Model.EthDeposit

/-- `s:<text>` -/
def strOf (t : String) : String := (t.drop 2).toString

/-- `l<n>:<a>,<b>,...` -/
def listOf (t : String) : List String :=
  match (t.drop 1).toString.splitOn ":" with
  | n :: rest =>
    let body := ":".intercalate rest
    if n.toNat?.getD 0 = 0 then [] else body.splitOn ","
  | _ => []

def vpResOf (t : String) : VpRes :=
  if t == "err" then .err else if t == "nil" then .absent else .val (Proto.bytesOf ((t.drop 1).toString |> fun x => if x.isEmpty then "-" else x))

/-- `K:<in>=<out>;...` (a finite table of Keccak-256 values computed by the harness) -/
def tableOf (t : String) : List (String × String) :=
  ((":".intercalate ((t.splitOn ":").drop 1)).splitOn ";").filterMap fun kv =>
    match kv.splitOn "=" with
    | [k, v] => some (k, v)
    | _ => none

def missing : List UInt8 := [0xde, 0xad]   -- marks an oracle value the op line does not carry

def kOf (tab : List (String × String)) (x : List UInt8) : List UInt8 :=
  match tab.lookup (Hex.showHex x) with
  | some v => Proto.bytesOf v
  | none => missing ++ x

def vpOf (tab : List (String × String)) (root key : List UInt8) (_nodes : List (List UInt8)) : VpRes :=
  match tab.lookup (Hex.showHex root ++ "|" ++ Hex.showHex key) with
  | some v => vpResOf v
  | none => .val missing

def showReject : Reject → String
  | .noHead => "nohead" | .notConfirmed => "not-confirmed" | .noHeader => "noheader" | .json => "json"
  | .format => "format" | .address => "address" | .acctProof => "acct-proof" | .number => "number" | .rlp => "rlp"
  | .acctMismatch => "acct-mismatch" | .storProof => "storage-proof" | .absent => "absent"
  | .valueHash => "value-hash" | .decode => "decode"

def showParam (p : TxParam) : String :=
  ":".intercalate [Hex.showHex p.txHash, Hex.showHex p.crossChainID, Hex.showHex p.fromContract, toString p.toChainID,
    Hex.showHex p.toContract, Hex.showHex p.method, Hex.showHex p.args]

def storageProofsOf : List String → List StorageProof
  | k :: p :: rest => ⟨strOf k, listOf p⟩ :: storageProofsOf rest
  | _ => []

def step (st : PowDrv.St) (toks : List String) : PowDrv.St × String :=
  match toks with
  | ["deposit", btw, height, ccmc, json, extra, ktab, vptab] =>
    match st.store with
    | none => (st, "bad-op")
    | some s =>
        -- the proof arrives as the raw JSON text (hex after `j:`) and is unmarshalled by the model
        let raw := (Proto.bytesOf ((json.drop 2).toString |> fun x => if x.isEmpty then "-" else x)).map fun b => Char.ofNat b.toNat
        let proof : Option EthProof := Poly.Model.ProofJson.unmarshalProof raw
        let K := kOf (tableOf ktab)
        let vp := vpOf (tableOf vptab)
        -- the quorum router's MakeDepositProposal with a (valid) header committing to the main-chain block of that height
        let quorum := match headerByHeight s (EthRulesDrv.nat height) with
          | none => "na"
          | some blk =>
            match quorumMakeDeposit K vp blk.hdr.rules.2.2 (Proto.bytesOf ccmc) proof (Proto.bytesOf extra) with
            | .ok p => "ok:" ++ showParam p
            | .error e => "reject:" ++ showReject e
        -- the seven sibling routers carry the same decision logic (clone check + executed on a mirrored state by the harness)
        let tail := " siblings=agree quorum=" ++ quorum
        match verifyFromEthTx K vp (fun h : PowDrv.PHdr => h.rules.2.2) s (EthRulesDrv.nat btw) (EthRulesDrv.nat height)
            (Proto.bytesOf ccmc) proof (Proto.bytesOf extra) with
        | .ok p => (st, "ok:" ++ showParam p ++ tail)
        | .error e => (st, "reject:" ++ showReject e ++ tail)
  | _ => PowDrv.step st toks

end EvmDrv

namespace BtcDrv
open Poly.Model.PoWBtc

/-- rules payload: compact target bits and the header hash as a number (`blockchain.HashToBig`) -/
abbrev Pay := Nat × Nat
abbrev BHdr := Poly.Model.PoWBtc.Hdr String Pay

/-- `blockchain.CompactToBig`. -/
def compactToBig (bits : Nat) : Int :=
  let mantissa := bits % 8388608            -- bits & 0x007fffff
  let negative := (bits / 8388608) % 2 = 1  -- bits & 0x00800000
  let exponent := bits / 16777216           -- bits >> 24
  let v : Nat := if exponent ≤ 3 then mantissa / 2 ^ (8 * (3 - exponent)) else mantissa * 2 ^ (8 * (exponent - 3))
  if negative then -(v : Int) else (v : Int)

/-- `blockchain.CalcWork`: `2^256 / (target + 1)`, zero for a non-positive target. -/
def calcWork (bits : Nat) : Nat :=
  let t := compactToBig bits
  if t ≤ 0 then 0 else 2 ^ 256 / (t.toNat + 1)

def regtestPowLimit : Int := 2 ^ 255 - 1

/-- `CheckHeader` on regtest: only the proof of work is checked (`bad` = skipped silently). -/
def checkRegtest (h : BHdr) (_p : Stored String Pay) : Check :=
  let t := compactToBig h.rules.1
  if t ≤ 0 then .bad else if t > regtestPowLimit then .bad else if (h.rules.2 : Int) > t then .bad else .ok

structure St where
  store : Option (Store String Pay) := none
  genesis : String := ""
  seen : List String := []
  lo : Nat := 0
  hi : Nat := 0

/-- `HashToBig`: the 32 hash bytes in reverse order as a big-endian number. -/
def hashNum (hex : String) : Nat := (Proto.bytesOf hex).foldr (fun b acc => acc * 256 + b.toNat) 0

/-- hash prev bits (the remaining header fields are not read by the model) -/
def hdrOf : List String → Option BHdr
  | [hash, prev, bits, _nonce, _time, _merkle] =>
    let b := EthRulesDrv.nat bits
    some ⟨hash, prev, calcWork b, (b, hashNum hash)⟩
  | _ => none

def chunks6 : List String → List (List String)
  | a :: b :: c :: d :: e :: f :: rest => [a, b, c, d, e, f] :: chunks6 rest
  | [] => []
  | l => [l]

def showStored (e : Stored String Pay) : String :=
  s!"{PowDrv.short e.hdr.hash}:{e.total}:{e.height}:{PowDrv.short e.hdr.prev}"

def dump (st : St) : String :=
  match st.store with
  | none => "nostate"
  | some s =>
    let hs := PowDrv.sortStr (st.seen.eraseDups.filterMap fun k => (s.headers k).map showStored)
    let heights := (List.range (st.hi + 4 - (st.lo - 2))).map (· + (st.lo - 2))
    let idx := heights.filterMap fun n => (s.index n).map fun h => s!"{n}:{PowDrv.short h}"
    let best := match s.best with | some b => showStored b | none => "none"
    s!"best={best} genesis={PowDrv.short st.genesis} index=[{",".intercalate idx}] headers=[{",".intercalate hs}]"

def failLabel (s : Store String Pay) : List BHdr → String
  | [] => "ok"
  | h :: rest =>
    let (s', o) := syncHeader checkRegtest s h
    match o with
    | .noBest => "reject:nobest"
    | .orphan => "reject:orphan"
    | .checkError => "reject:check"
    | .ancestorError => "reject:ancestor"
    | _ => failLabel s' rest

def step (st : St) (toks : List String) : St × String :=
  match toks with
  | "bgenesis" :: height :: rest =>
    match hdrOf rest with
    | some g =>
      let n := EthRulesDrv.nat height
      let st' : St := { store := some (init g n), genesis := g.hash, seen := [g.hash], lo := n, hi := n }
      (st', dump st')
    | none => (st, "bad-op")
  | "bsync" :: rest =>
    match st.store, (chunks6 rest).mapM hdrOf with
    | some s, some hs =>
      let (s', outs) := syncCall checkRegtest s hs
      let label := if outs.any Outcome.failed then failLabel s hs else "ok"
      let st' : St := { st with store := some s', seen := st.seen ++ hs.map (·.hash) ++ hs.map (·.prev), hi := st.hi + hs.length }
      (st', label ++ " " ++ dump st')
    | _, _ => (st, "bad-op")
  | _ => (st, "bad-op")

end BtcDrv

namespace BtcDiffDrv
open Poly.Model.BtcRetarget

def powLimit (net : String) : Int :=
  if net == "main" then 2 ^ 224 - 1 else if net == "test3" then 2 ^ 224 - 1 else 2 ^ 255 - 1

def step (_ : Unit) (toks : List String) : Unit × String :=
  match toks with
  | ["adj", net, s, e, bits] =>
    ((), toString (calcDiffAdjust (EthRulesDrv.nat s) (EthRulesDrv.nat e) (EthRulesDrv.nat bits) (powLimit net)))
  | ["tobig", bits] => ((), toString (compactToBig (EthRulesDrv.nat bits)))
  | ["tocompact", n] => ((), toString (bigToCompact (EthRulesDrv.int n)))
  | _ => ((), "bad-op")

end BtcDiffDrv

def main (args : List String) : IO Unit :=
  match args with
  | ["ethrules"] => Proto.run () EthRulesDrv.step
  | ["pow"] => Proto.run ({} : PowDrv.St) PowDrv.step
  | ["evm"] => Proto.run ({} : PowDrv.St) EvmDrv.step
  | ["powbtc"] => Proto.run ({} : BtcDrv.St) BtcDrv.step
  | ["btcdiff"] => Proto.run () BtcDiffDrv.step
  | _ => IO.eprintln "usage: drv_eth <family>"
