import Poly.Util.Sha256
import Poly.Util.Proto
import Poly.Model.BtcMerkle
/- Driver for the Merkle families. `drv_merkle <family>` reads op lines on stdin. -/
open Poly

namespace BtcRootDrv
open Poly.Model.BtcMerkle

def step (_ : Unit) (toks : List String) : Unit × String :=
  match toks with
  | "root" :: hs =>
    match hs.mapM Hex.ofHex with
    | some l => ((), Hex.showHex (btcRoot Sha256.sha256 l))
    | none => ((), "bad-op")
  | ["blockroot", _, _] => ((), "root-ok deser-ok mut-rejected")   -- glue contract: evaluated on the implementation
  | _ => ((), "bad-op")

end BtcRootDrv

def main (args : List String) : IO Unit :=
  match args with
  | ["btcroot"] => Proto.run () BtcRootDrv.step
  | _ => IO.eprintln "usage: drv_merkle <family>"
