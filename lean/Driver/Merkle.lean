import Poly.Util.Sha256
import Poly.Util.Proto
import Poly.Model.BtcMerkle
import Poly.Model.Merkle
import Poly.Model.MerkleLedger
import Poly.Model.MerkleArray
/- Driver for the Merkle families. `drv_merkle <family>` reads op lines on stdin. -/
open Poly

namespace BtcRootDrv
open Poly.Model.BtcMerkle

def step (_ : Unit) (toks : List String) : Unit × String :=
  match toks with
  | "root" :: hs =>
    match hs.mapM Hex.ofHex with
    | some l => ((), Hex.showHex (btcRoot Sha256.sha256 l))
    | none => ((), "bad-op")
  | ["blockroot", _, _] => ((), "root-ok deser-ok mut-rejected")   -- glue contract: evaluated on the implementation
  | ["blockroot", _, _, _, _] => ((), "root-ok dup-rejected")     -- block repeating a transaction: root covers every hash; decoding refuses it
  | ["rootpar", _, _, _, _] => ((), "ok")   -- concurrent calls: the model is a pure function; evaluated on the implementation
  | _ => ((), "bad-op")

end BtcRootDrv


/-! ## Families for C06 / C07 / C08 (model: Poly.Model.Merkle, hash = SHA-256) -/
namespace MerkleDrv
open Poly.Model.Merkle Poly.Spec.RFC6962

def Hf : List UInt8 → List UInt8 := Sha256.sha256

def showList (l : List Hash) : String := if l.isEmpty then "-" else ",".intercalate (l.map Hex.toHex)

def parseHashes (s : String) : Option (List Hash) :=
  if s == "-" then some [] else ((s.splitOn ",").map String.toList).mapM Hex.ofHexChars

def res {α : Type} (f : α → String) : Except Err α → String
  | .ok a => f a
  | .error e => e.name

def showNats (l : List Nat) : String := if l.isEmpty then "-" else ",".intercalate (l.map toString)

/-! ### mtree: compact tree + hash store (C06)

The store is the array-backed `AStore` (`Poly/Model/MerkleArray.lean`), proved to read and write exactly as
the list-backed `HashStore` of the model (`Poly/Proofs/MerkleArray.lean`, audited through Props/C06). -/
open Poly.Model.MerkleArray in
structure MT where
  tree : CompactTree
  store : Option AStore

open Poly.Model.MerkleArray in
def mtreeInit : MT := ⟨emptyTree, none⟩

open Poly.Model.MerkleArray in
def mtreeStep (s : MT) (toks : List String) : MT × String :=
  let rd : Option Reader := s.store.map AStore.reader
  match toks with
  | ["new", kind] =>
    let store : Option AStore :=
      if kind == "mem" then some ⟨false, #[], 0⟩ else if kind == "file" then some ⟨true, #[], 0⟩ else none
    (⟨emptyTree, store⟩, "ok")
  | ["append", d] =>
    match Hex.ofHex d with
    | none => (s, "bad-op")
    | some data =>
      match appendLeaf Hf s.tree data with
      | .error e => (s, e.name)
      | .ok (t, st, audit) =>
        (⟨t, s.store.map (·.put st)⟩, s!"{t.size} {res Hex.toHex (root Hf t)} {showList audit}")
  | ["state"] =>
    (s, s!"{s.tree.size} {showList s.tree.hashes} " ++ (match s.store with | none => "nil" | some st => toString st.arr.size))
  | ["store", i] => match s.store with
    | none => (s, "nil")
    | some st => (s, res Hex.toHex (st.reader (Proto.natOf i + 1)))
  | ["storeall"] => match s.store with
    | none => (s, "nil")
    | some st => (s, showList st.arr.toList)
  | ["root"] => (s, res Hex.toHex (root Hf s.tree))
  | ["predict1", h] => match Hex.ofHex h with
    | none => (s, "bad-op")
    | some x => (s, res Hex.toHex (getRootWithNewLeaf Hf s.tree x))
  | ["predict", hs] => match parseHashes hs with
    | none => (s, "bad-op")
    | some xs => (s, res Hex.toHex (getRootWithNewLeaves Hf s.tree xs))
  | ["marshal"] => (s, Hex.showHex (marshal s.tree))
  | ["unmarshal", b] => match Hex.ofHex b with
    | none => (s, "bad-op")
    | some buf => match unmarshal buf with
      | .error e => (s, e.name)
      | .ok t => (⟨t, s.store⟩, s!"ok {t.size} {showList t.hashes}")
  | ["newtree", n, hs] => match parseHashes hs with
    | none => (s, "bad-op")
    | some xs => match newTree (Proto.natOf n) xs with
      | .error e => (s, e.name)
      | .ok t => (⟨t, s.store⟩, "ok")
  | ["reopen", keep] => match s.store with
    | none => (s, "nil")
    | some st =>
      if !st.isFile then (s, "mem") else
      match st.reopen (if keep == "all" then none else some (Proto.natOf keep)) s.tree.size with
      | none => (⟨s.tree, none⟩, "nostore")
      | some st' => (⟨s.tree, some st'⟩, "ok")
  | ["resume", _] => (s, "ok")     -- harness-side: oracles switched on again after a crash scenario
  | ["recheck"] => (s, "ok")       -- harness-side: results handed out earlier are re-read and saved states reloaded
  | ["incl", m, n] => (s, res showList (inclusionProofR Hf s.tree.size rd (Proto.natOf m) (Proto.natOf n)))
  | ["cons", m, n] => (s, res (fun o => match o with | none => "nil" | some p => showList p)
      (consistencyProofR Hf s.tree.size rd (Proto.natOf m) (Proto.natOf n)))
  | ["leafpath", d, m, n] => match Hex.ofHex d with
    | none => (s, "bad-op")
    | some data => (s, res Hex.showHex (merkleInclusionLeafPathR Hf s.tree.size rd data (Proto.natOf m) (Proto.natOf n)))
  | ["mroot", n] => match s.store with
    | none => (s, "nil")
    | some st => (s, res Hex.toHex (merkleRoot Hf st.reader (Proto.natOf n)))
  | ["bits", n] =>
    let k := Proto.natOf n
    (s, s!"{countBitGo k} {highBit k} {lowBit k} {showNats (getSubTreeSize k)} {showNats (getSubTreePos k)} {storedHashNum k}")
  | _ => (s, "bad-op")

/-! ### mverify: the three verifiers (C07) -/

def unitRes : Except Err Unit → String
  | .ok _ => "ok"
  | .error e => e.name

def mverifyStep (_ : Unit) (toks : List String) : Unit × String :=
  match toks with
  | ["vincl", lh, i, n, r, p] =>
    match Hex.ofHex lh, Hex.ofHex r, parseHashes p with
    | some lh, some r, some p => ((), unitRes (verifyLeafHashInclusion Hf lh (Proto.natOf i) p r (Proto.natOf n)))
    | _, _, _ => ((), "bad-op")
  | ["vleaf", d, i, n, r, p] =>
    match Hex.ofHex d, Hex.ofHex r, parseHashes p with
    | some d, some r, some p => ((), unitRes (verifyLeafInclusion Hf d (Proto.natOf i) p r (Proto.natOf n)))
    | _, _, _ => ((), "bad-op")
  | ["vcons", m, n, r1, r2, p] =>
    match Hex.ofHex r1, Hex.ofHex r2, parseHashes p with
    | some r1, some r2, some p => ((), unitRes (verifyConsistency Hf (Proto.natOf m) (Proto.natOf n) r1 r2 p))
    | _, _, _ => ((), "bad-op")
  | ["mprove", path, r] =>
    match Hex.ofHex path, Hex.ofHex r with
    | some path, some r => ((), res (fun v => "ok " ++ Hex.showHex v) (merkleProve Hf path r))
    | _, _ => ((), "bad-op")
  | ["aplen", i, n] =>
    -- `last_node := tree_size - 1` in uint32
    let last := if Proto.natOf n = 0 then 4294967295 else Proto.natOf n - 1
    ((), toString (auditPathLength (Proto.natOf i) last))
  | ["ctx", _] => ((), "ok")       -- harness-side context for the soundness oracle
  | ["ctx2", _] => ((), "ok")
  | _ => ((), "bad-op")

/-! ### mserve: the trees that serve relayers (C08), tree part -/

def showLevels (ls : List (List Hash)) : String := "/".intercalate (ls.map showList)

def mserveTreeStep (toks : List String) : Option String :=
  match toks with
  | ["fullroot", hs] => match parseHashes hs with
    | none => some "bad-op"
    | some xs => some (res Hex.toHex (hashFullTree Hf xs))
  | ["fullrootdata", ds] => match parseHashes ds with
    | none => some "bad-op"
    | some xs => some (res Hex.toHex (hashFullTree Hf (xs.map (hashLeaf Hf))))
  | ["mhashes", d, hs] => match parseHashes hs with
    | none => some "bad-op"
    | some xs => some (showLevels (merkleHashes Hf xs (Proto.natOf d)))
  | ["depth", n] => some (toString (depth (Proto.natOf n)))
  | ["hleaf", d] => match Hex.ofHex d with
    | none => some "bad-op"
    | some d => some s!"{Hex.toHex (hashLeaf Hf d)} {res Hex.toHex (hashFullTree Hf [hashLeaf Hf d])}"
  | ["hchild", l, r] => match Hex.ofHex l, Hex.ofHex r with
    | some l, some r => some (Hex.toHex (hashChildren Hf l r))
    | _, _ => some "bad-op"
  | ["leafpath", d, hs] => match Hex.ofHex d, parseHashes hs with
    | some d, some xs => some (res Hex.showHex (merkleLeafPath Hf d xs))
    | _, _ => some "bad-op"
  | _ => none

def mserveStep (_ : Unit) (toks : List String) : Unit × String :=
  match mserveTreeStep toks with
  | some r => ((), r)
  | none => ((), "bad-op")


/-! ### mledger: ledger glue (C08) -/
open Poly.Model.MerkleLedger in
def parseRecs (tok : String) : Option (List (List UInt8 × List UInt8)) :=
  if tok == "-" then some [] else
  (tok.splitOn ",").mapM fun kv =>
    match kv.splitOn ":" with
    | [k, v] => match Hex.ofHex k, Hex.ofHex v with
      | some k, some v => some (k, v)
      | _, _ => none
    | _ => none

/-- Records committed by the successful transactions of a block, in order. -/
def parseTxs (tok : String) : Option (List (List UInt8 × List UInt8)) :=
  if tok == "-" then some [] else
  (tok.splitOn "/").foldlM (init := []) fun acc t =>
    match t.splitOn "." with
    | [_, fail, _, _, recs] =>
      match parseRecs recs with
      | none => none
      | some rs => if fail == "1" then some acc else some (acc ++ rs)
    | _ => none

open Poly.Model.MerkleLedger in
def mledgerStep (s : Option Ledger) (toks : List String) : Option Ledger × String :=
  match toks, s with
  | ["genesis", h], _ =>
    match Hex.ofHex h with
    | none => (s, "bad-op")
    | some bh => match genesis Hf bh with
      | .error e => (none, e.name)
      | .ok l => (some l, "ok")
  | _, none => (s, "bad-op:no-ledger")
  | ["block", _, _, h, txs], some l =>
    match Hex.ofHex h, parseTxs txs with
    | some bh, some recs =>
      match addBlock Hf l bh recs with
      | .error e => (s, e.name)
      | .ok l' =>
        let hashes := recs.map (fun kv => hashLeaf Hf kv.2)
        (some l', s!"ok {res Hex.toHex (blockRoot Hf l')} {res Hex.toHex (crossRoot Hf hashes)} {hashes.length}")
    | _, _ => (s, "bad-op")
  | ["blockraw", _, h, _, txs], some l =>     -- a block built by the vbft proposer code, recorded as bytes
    match Hex.ofHex h, parseTxs txs with
    | some bh, some recs =>
      match addBlock Hf l bh recs with
      | .error e => (s, e.name)
      | .ok l' =>
        let hashes := recs.map (fun kv => hashLeaf Hf kv.2)
        (some l', s!"ok {res Hex.toHex (blockRoot Hf l')} {res Hex.toHex (crossRoot Hf hashes)} {hashes.length}")
    | _, _ => (s, "bad-op")
  | ["xproof", h, key], some l =>
    match Hex.ofHex key with
    | none => (s, "bad-op")
    | some k => match getCrossStatesProof Hf l (Proto.natOf h) k with
      | .ok p => (s, Hex.showHex p)
      | .error e => (s, e.name)
  | ["bproof", h, r], some l =>
    match getMerkleProof Hf l (Proto.natOf h) (Proto.natOf r) with
    | .ok p => (s, Hex.showHex p)
    | .error e => (s, e.name)
  | ["reopen"], some l => (some (reopen l), "ok")
  | _, _ => (s, "bad-op")

end MerkleDrv

def main (args : List String) : IO Unit :=
  match args with
  | ["btcroot"] => Proto.run () BtcRootDrv.step
  | ["mtree"] => Proto.run MerkleDrv.mtreeInit MerkleDrv.mtreeStep
  | ["mverify"] => Proto.run () MerkleDrv.mverifyStep
  | ["mserve"] => Proto.run () MerkleDrv.mserveStep
  | ["mledger"] => Proto.run none MerkleDrv.mledgerStep
  | _ => IO.eprintln "usage: drv_merkle <family>"
