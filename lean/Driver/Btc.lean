import Poly.Util.Proto
import Poly.Model.Btc
/- Driver for the BTC coin-selection family (C26). `drv_btc btcsel` reads op lines on stdin.

   sel <mode> <m> <n> <feeRate> <mc> <target> <maxPn> <maxPd> <kn> <kd> <tries> <outs> <utxos>
        mode = select | bnb | sorted; outs = comma separated pkScript lengths or `-`;
        utxos = comma separated `value:kind` (kind w = witness-v0-script-hash, s = pay-to-script-hash, o = other) or `-`
        -> none | panic | ok sel=<positions> sum=<n> fee=<n> tries=<remaining>
   init <m> <n> <feeRate> <mc>                 -> ok        (stateful part: a UTXO store of one redeem key)
   add <id> <value> <kind> <hash> <index>      -> ok
   choose <amount> <outs>                      -> err | panic | ok sel=<ids> sum=<n> fee=<n> utxos=<ids> stxos=<ids>
   maketx <amount>                             -> err | err:amount | panic | ok in=<ids> out=<values> utxos=<ids> stxos=<ids>
        (makeBtcTx with one payment output; the model computes chooseUtxos, the fee share and change = sum - amount)
   maketx <amount> self                        -> the same, paying the multisig's own witness address
   sign <seq> <signer> | signbad <seq> <signer> -> err:signed | err:enough | err:verify | ok pending | ok final utxos=<ids> stxos=<ids>
        (one MultiSign call of redeem key <signer> on the <seq>-th built transaction; signbad = a wrong signature)
   settxid <seq> <txid>                        -> ok   (hash of the outputs created by the signed transaction)
   dump                                        -> utxos=<ids> stxos=<ids>
-/
open Poly Poly.Model.Btc

namespace BtcDrv

def f64 (n : Nat) : Float := n.toUInt64.toFloat

/-- The float tests exactly as the Go code computes them (IEEE double). -/
def tests (target maxPn maxPd kn kd : Nat) : Tests :=
  let maxP := f64 maxPn / f64 maxPd
  let k := f64 kn / f64 kd
  { lrGe := fun fee => f64 fee / f64 target ≥ maxP
    gtK := fun sum => f64 sum > k * f64 target
    leK := fun sum => f64 sum ≤ k * f64 target }

def splitList (s : String) : List String := if s == "-" then [] else s.splitOn ","

def parseOuts (s : String) : List Nat := (splitList s).map Proto.natOf

def parseKind (k : String) : Bool × Bool := (k == "w", k == "s")

def parseUtxos (s : String) : List Utxo :=
  (splitList s).zipIdx.map fun (t, i) =>
    match t.splitOn ":" with
    | [v, k] => let (w, p) := parseKind k; { id := i, value := Proto.natOf v, wit := w, p2sh := p }
    | _ => { id := i, value := 0, wit := false, p2sh := false }

def showIds (l : List Utxo) : String :=
  if l.isEmpty then "-" else ",".intercalate (l.map fun u => toString u.id)

def intOf (s : String) : Int := s.toInt?.getD 0

def showRes (r : Res) (tries : Int) : String :=
  match r with
  | .none => "none"
  | .panic => "panic"
  | .some a => s!"ok sel={showIds a.sel} sum={a.sum} fee={a.fee} tries={tries}"

structure St where
  m : Nat := 0
  n : Nat := 0
  feeRate : Nat := 0
  mc : Nat := 0
  store : Store := ⟨[], []⟩
  inited : Bool := false
  pending : List Pending := []

def step (s : St) (toks : List String) : St × String :=
  match toks with
  | ["sel", mode, m, n, feeRate, mc, target, maxPn, maxPd, kn, kd, tries, outs, utxos] =>
    let P : Params := { mc := Proto.natOf mc, target := Proto.natOf target, feeRate := Proto.natOf feeRate,
                        m := Proto.natOf m, n := Proto.natOf n, outs := parseOuts outs }
    let T := tests P.target (Proto.natOf maxPn) (Proto.natOf maxPd) (Proto.natOf kn) (Proto.natOf kd)
    let us := parseUtxos utxos
    let tr := intOf tries
    match mode with
    | "bnb" =>
      if us.isEmpty then (s, "none") else
      let (r, t) := bnb T P us 0 [] 0 tr
      (s, showRes r t)
    | "sorted" => (s, showRes (sortedSearch T P us) tr)
    | "select" =>
      if us.isEmpty then (s, "none") else
      let (r, t) := bnb T P us 0 [] 0 tr
      match r with
      | .none => (s, showRes (sortedSearch T P us) t)
      | r => (s, showRes r t)
    | _ => (s, "bad-op")
  | ["init", m, n, feeRate, mc] =>
    ({ m := Proto.natOf m, n := Proto.natOf n, feeRate := Proto.natOf feeRate, mc := Proto.natOf mc, inited := true }, "ok")
  | ["add", id, value, kind, hash, index] =>
    if !s.inited then (s, "bad-op") else
    let (w, p) := parseKind kind
    let u : Utxo := { id := Proto.natOf id, value := Proto.natOf value, wit := w, p2sh := p,
                      hash := Proto.bytesOf hash, index := Proto.natOf index }
    ({ s with store := { s.store with utxos := s.store.utxos ++ [u] } }, "ok")
  | ["choose", amount, outs] =>
    if !s.inited then (s, "bad-op") else
    let P : Params := { mc := s.mc, target := Proto.natOf amount, feeRate := s.feeRate, m := s.m, n := s.n,
                        outs := parseOuts outs }
    let T := tests P.target 1 1 4 1     -- MAX_FEE_COST_PERCENTS = 1.0, SELECTING_K = 4.0
    match chooseUtxos T P s.store 1000000 with
    | .err => (s, "err")
    | .panic => (s, "panic")
    | .ok a st =>
      ({ s with store := st },
        s!"ok sel={showIds a.sel} sum={a.sum} fee={a.fee} utxos={showIds st.utxos} stxos={showIds st.stxos}")
  | "maketx" :: amount :: selfTok =>
    if !s.inited || !(1 ≤ s.m && s.m ≤ s.n && s.n ≤ 15) || !(selfTok == [] || selfTok == ["self"]) then (s, "bad-op") else
    let self := selfTok == ["self"]
    let amt := intOf amount
    if amt ≤ 0 || amt > 2100000000000000 then (s, "err:amount") else
    -- the payment output (P2PKH script, or the multisig's own P2WSH script) and the change output (P2WSH script)
    let P : Params := { mc := s.mc, target := amt.toNat, feeRate := s.feeRate, m := s.m, n := s.n,
                        outs := [if self then 34 else 25, 34] }
    let T := tests P.target 1 1 4 1
    match chooseUtxos T P s.store 1000000 with
    | .err => (s, "err")
    | .panic => (s, "panic")
    | .ok a st =>
      -- outs[i].Value - int64(float64(gasFee)/float64(amountSum)*float64(outs[i].Value)); change = sum - amountSum
      let feeShare : Int := ((f64 a.fee / f64 P.target * f64 P.target).toUInt64.toNat : Nat)
      let v1 : Int := amt - feeShare
      let ch := change a.sum amt
      let outs := [toString v1] ++ (if ch > 0 then [toString ch] else [])
      let pend : Pending := { inputs := a.sel, outs := [(v1.toNat, self)] ++ (if ch > 0 then [(ch.toNat, true)] else []), signers := [] }
      ({ s with store := st, pending := s.pending ++ [pend] },
        s!"ok in={showIds a.sel} out={",".intercalate outs} utxos={showIds st.utxos} stxos={showIds st.stxos}")
  | [op, seq, signer] =>
    if op == "settxid" then
      -- settxid <seq> <txid>: the id of the signed transaction (a hash the model does not compute) becomes the hash
      -- of the unspent outputs that transaction created
      let q := Proto.natOf seq
      match s.pending[q]? with
      | none => (s, "bad-op")
      | some p =>
        if p.signers.length != s.m || !s.inited then (s, "bad-op") else
        let h := Proto.bytesOf signer
        let fix (u : Utxo) : Utxo := if u.id / 10 == 100 + q && u.id ≥ 1000 then { u with hash := h } else u
        ({ s with store := { utxos := s.store.utxos.map fix, stxos := s.store.stxos.map fix } }, "ok")
    else if op == "sign" || op == "signbad" then
      if !s.inited || !(1 ≤ s.m && s.m ≤ s.n && s.n ≤ 15) then (s, "bad-op") else
      let q := Proto.natOf seq
      let sg := Proto.natOf signer
      match s.pending[q]? with
      | none => (s, "bad-op")
      | some p =>
        if sg ≥ s.n then (s, "bad-op") else
        let mk (i v : Nat) : Utxo := { id := 1000 + 10 * q + i, value := v, wit := true, p2sh := false,
                                       hash := List.replicate 30 0 ++ [(q / 256).toUInt8, (q % 256).toUInt8], index := i }   -- placeholder until settxid
        match multiSign s.m s.store p sg (op == "sign") mk with
        | .errSigned => (s, "err:signed")
        | .errEnough => (s, "err:enough")
        | .errStxo => (s, "err:other")
        | .errVerify => (s, "err:verify")
        | .pending p' => ({ s with pending := s.pending.set q p' }, "ok pending")
        | .final p' st =>
          ({ s with pending := s.pending.set q p', store := st },
            s!"ok final utxos={showIds st.utxos} stxos={showIds st.stxos}")
    else (s, "bad-op")
  | ["dump"] => if !s.inited then (s, "bad-op") else (s, s!"utxos={showIds s.store.utxos} stxos={showIds s.store.stxos}")
  | _ => (s, "bad-op")

end BtcDrv

def main (args : List String) : IO Unit :=
  match args with
  | ["btcsel"] => Proto.run ({} : BtcDrv.St) BtcDrv.step
  | _ => IO.eprintln "usage: drv_btc <family>"
