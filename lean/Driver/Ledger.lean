import Poly.Util.Sha256
import Poly.Util.Proto
import Poly.Model.Ledger
/-!
Driver for the ledger families (`drv_ledger ledger`): executes `Poly.Model.Ledger` on the op lines written by
`harness/cmd/hledger`. The parameters of the model are instantiated here: SHA-256, the signature tokens of the op
line (`s<i>` verifies under key i only, `w<i>` under no key, `g` does not decode) and the scripted test contract.
-/
open Poly Poly.Model.Ledger

namespace LedgerDrv

/-! ### the scripted test contract (mirror of `runProgram` in harness/cmd/hledger/world.go) -/

def contractAddr : Bytes := List.replicate 20 0xEE
/-- raw state-store key of a contract key suffix -/
def rawKeyS (suffix : Bytes) : Bytes := 0x05 :: (contractAddr ++ suffix)
def rawKey (k : UInt8) : Bytes := rawKeyS [k]
/-- key suffix of counter `j` of the wide range (instruction 06) -/
def rangeSuffix (j : Nat) : Bytes := [0xff, (j / 256).toUInt8, (j % 256).toUInt8]

def le64 (v : Nat) : Bytes := (List.range 8).map fun i => ((v >>> (8 * i)) % 256).toUInt8
def ofLe64 (b : Bytes) : Nat := (b.zipIdx.map fun (x, i) => x.toNat <<< (8 * i)).foldl (· + ·) 0

/-- bytewise lexicographic order (the order of the overlay's skip list) -/
def bytesLt : Bytes → Bytes → Bool
  | [], [] => false
  | [], _ :: _ => true
  | _ :: _, [] => false
  | x :: xs, y :: ys => if x < y then true else if y < x then false else bytesLt xs ys

/-- sorted association list keyed by the key suffix; value `[]` = deleted -/
def ovPut (k : Bytes) (v : Bytes) : List (Bytes × Bytes) → List (Bytes × Bytes)
  | [] => [(k, v)]
  | (k', v') :: rest => if k = k' then (k, v) :: rest else if bytesLt k k' then (k, v) :: (k', v') :: rest else (k', v') :: ovPut k v rest

def ovGet (k : Bytes) (m : List (Bytes × Bytes)) : Option Bytes := (m.find? (·.1 == k)).map (·.2)

structure TxRun where
  cache : List (Bytes × Bytes) := []
  cross : List Hash := []

def readCounter (store : Bytes → Option Bytes) (overlay cache : List (Bytes × Bytes)) (k : Bytes) : Bytes :=
  match ovGet k cache with
  | some v => v
  | none => match ovGet k overlay with
    | some v => v
    | none => (store (rawKeyS k)).getD []

def bump (store : Bytes → Option Bytes) (overlay : List (Bytes × Bytes)) (t : TxRun) (k : Bytes) (d : Nat) : TxRun :=
  let cur := readCounter store overlay t.cache k
  let v := (if cur.length = 8 then ofLe64 cur else 0) + d
  { t with cache := ovPut k (le64 (v % 2^64)) t.cache }

/-- run one program; `none` = the transaction fails and leaves nothing behind -/
def runProg (H : Bytes → Hash) (store : Bytes → Option Bytes) (overlay : List (Bytes × Bytes)) :
    Nat → Bytes → TxRun → Option TxRun
  | 0, _, _ => none
  | _ + 1, [], t => some t
  | fuel + 1, 1 :: k :: d :: rest, t => runProg H store overlay fuel rest (bump store overlay t [k] d.toNat)
  | fuel + 1, 2 :: k :: rest, t => runProg H store overlay fuel rest { t with cache := ovPut [k] [] t.cache }
  | fuel + 1, 3 :: b :: rest, t => runProg H store overlay fuel rest { t with cross := t.cross ++ [leafHash H [b]] }
  | fuel + 1, 5 :: _ :: rest, t => runProg H store overlay fuel rest t
  | fuel + 1, 6 :: nh :: nl :: d :: rest, t =>
    runProg H store overlay fuel rest
      ((List.range (nh.toNat * 256 + nl.toNat)).foldl (fun t j => bump store overlay t (rangeSuffix j) d.toNat) t)
  | _ + 1, _, _ => none

def execBlock (H : Bytes → Hash) (store : Bytes → Option Bytes) (b : Block) : ExecResult :=
  let (overlay, cross, notes) := b.txs.foldl
    (fun (acc : List (Bytes × Bytes) × List Hash × List (Hash × Bool)) tx =>
      match runProg H store acc.1 (tx.body.length + 1) tx.body {} with
      | none => (acc.1, acc.2.1, acc.2.2 ++ [(tx.hash, false)])
      | some t => (t.cache.foldl (fun ov (kv : Bytes × Bytes) => ovPut kv.1 kv.2 ov) acc.1, acc.2.1 ++ t.cross,
                   acc.2.2 ++ [(tx.hash, true)]))
    ([], [], [])
  let ws := overlay.map fun (kv : Bytes × Bytes) => (rawKeyS kv.1, kv.2)
  { writeSet := ws, changeHash := H (ws.flatMap fun kv => kv.1 ++ kv.2), crossHashes := cross, notifies := notes }

/-! ### signature tokens -/

def sigOfToken (t : String) : Option Sig :=
  match t.toList with
  | 's' :: r => (String.ofList r).toNat?.map fun k => [1, k.toUInt8]
  | 'w' :: r => (String.ofList r).toNat?.map fun k => [2, k.toUInt8]
  | ['g'] => some [0]
  | _ => none

def mkParams (net : Int) (ev : Bool) : Params :=
  { H := Sha256.sha256
    verify := fun k _ sig => sig == [1, k.toUInt8]
    decode := fun sig => sig != [0]
    exec := execBlock Sha256.sha256
    netId := net
    batch := 2000
    eventLog := ev }

/-! ### world -/

structure World where
  st : Option State := none
  dead : Option String := none
  blocks : List (String × Block) := []
  gen : Option Block := none
  net : Int := 2
  ev : Bool := false

def findBlock (w : World) (n : String) : Option Block := (w.blocks.find? (·.1 == n)).map (·.2)

def errName : Err → String
  | .height => "height" | .noprev => "noprev" | .prevheight => "prevheight" | .timestamp => "timestamp"
  | .fewkeys => "fewkeys" | .pubkey => "pubkey" | .fewsigs => "fewsigs" | .sigdata => "sigdata"
  | .multisig => "multisig" | .blockroot => "blockroot" | .stateroot => "stateroot" | .notip => "notip"
  | .treesize => "treesize" | .hashfile => "hashfile" | .genesis => "genesis" | .payload => "payload" | .other => "other"

def splitOn1 (s : String) (c : Char) : List String := s.splitOn (String.singleton c)

def parseNats (tok : String) : Option (List Nat) :=
  if tok == "-" || tok == "" then some [] else (splitOn1 tok ',').mapM (·.toNat?)

def parseTxs (tok : String) : Option (List Tx) :=
  if tok == "-" then some [] else
  (splitOn1 tok '/').mapM fun t =>
    match splitOn1 t '.' with
    | [_, prog, h] => do
      let body ← if prog == "_" then some [] else Hex.ofHex prog
      let hash ← Hex.ofHex h
      pure { hash := hash, body := body }
    | _ => none

def insertSorted (k : Nat) : List Nat → List Nat
  | [] => [k]
  | x :: xs => if k ≤ x then k :: x :: xs else x :: insertSorted k xs

def showSet (l : List Key) : String :=
  if l.isEmpty then "-" else ",".intercalate ((l.foldr insertSorted []).map toString)

def hex (h : Bytes) : String := Hex.toHex h

def showOpt (f : Nat → String) : Option Nat → String
  | some n => f n
  | none => "0"

def observe (p : Params) (s : State) : String :=
  let d := s.dur
  let m := s.mem
  let (stip, sh, e1) := match d.states.current with
    | some (h, n) => (h, n, "") | none => (zeroHash, 0, "state-current;")
  let (eh, e2) := match d.events.current with | some (_, n) => (n, "") | none => (0, "event-current;")
  let (btStored, e3) := match d.states.blockTree with | some l => (l.length, "") | none => (0, "block-tree;")
  let (stStored, e4) := match d.states.stateTree with | some l => (l.length, "") | none => (0, "state-tree;")
  let (srStored, e5) := match d.states.stateRootAt sh with | some (_, r) => (r, "") | none => (zeroHash, "state-root;")
  let cnts := (List.range 8).filterMap fun k =>
    match d.states.kv (rawKey k.toUInt8) with
    | none => none
    | some v => if v.length = 8 then some s!"{k}={ofLe64 v}" else some s!"{k}=?"
  let cnt := if cnts.isEmpty then "-" else ",".intercalate cnts
  let rng := match d.states.kv (rawKeyS (rangeSuffix 0)) with
    | none => "-"
    | some _ => hex ((p.H ((List.range 400).flatMap fun i =>
        let v := (d.states.kv (rawKeyS (rangeSuffix (5 * i)))).getD []
        v.length.toUInt8 :: v)).take 8)
  let xr := hex ((p.H ((List.range (m.currHeight + 1)).flatMap fun i =>
    match d.states.crossAt i with | some (_, r) => r | none => zeroHash)).take 8)
  let nev := match d.events.byBlock m.currHeight with
    | none => "none"
    | some ths => toString (ths.filter fun t => (d.events.notifyAt t).isSome).length
  let e := e1 ++ e2 ++ e3 ++ e4 ++ e5
  s!"bh={m.currHeight} tip={hex m.currHash} sh={sh} stip={hex stip} eh={eh} hh={headerHeight m} " ++
  s!"bt={m.blockTree.length}/{btStored}:{hex (treeRoot p m.blockTree)} " ++
  s!"st={m.stateTree.length}/{stStored}:{hex (treeRoot p m.stateTree)}:{hex srStored} cnt={cnt} rng={rng} xr={xr} nev={nev} " ++
  s!"peers={showSet m.peersH}|{showSet m.peersB} cache={m.cache.length} fl={d.fileLen} e={if e.isEmpty then "-" else e}"

def flipRoot (h : Hash) : Hash := h.zipIdx.map fun (x, i) => if i = 3 then x ^^^ 0x10 else x

def lookup (s : State) (b : Block) : String :=
  let db := s.dur.blocks
  let h := b.header.hash
  let byHash := match db.blockAt h with
    | some b' => if b'.header.hash = h ∧ b'.txs.length = b.txs.length then 1 else 0
    | none => 0
  let byHeight := match s.mem.headerIndex b.header.height with
    | some h' => if h' ≠ zeroHash ∧ h' = h ∧ (db.blockAt h').isSome then 1 else 0
    | none => 0
  let hdr := if (headerByHash s h).isSome then 1 else 0
  let cont := if (db.blockAt h).isSome then 1 else 0
  let ntx := (b.txs.filter fun t => match db.txAt t.hash with
    | some (t', n) => t'.hash = t.hash ∧ n = b.header.height | none => false).length
  s!"byhash={byHash} byheight={byHeight} header={hdr} contains={cont} txs={ntx}/{b.txs.length}"

/-- `fast`: honest empty blocks at the next heights, signed by the whole set in force -/
def fastAdd (p : Params) (ts0 lastCfg : Nat) : Nat → List Hash → State → Except (String) State
  | _, [], s => .ok s
  | i, h :: hs, s =>
    let b : Block := { header := { height := s.mem.currHeight + 1, hash := h, prev := s.mem.currHash, timestamp := ts0 + i,
                                   blockRoot := treeRoot p (s.mem.blockTree ++ [s.mem.currHash]),
                                   bookkeepers := s.mem.peersB.foldr insertSorted [],
                                   sigs := (s.mem.peersB.foldr insertSorted []).map fun k => [1, k.toUInt8],
                                   newCfg := none, lastCfg := lastCfg }, txs := [] }
    match addBlock p s b (executeBlock p s b).2 with
    | .ok s' => fastAdd p ts0 lastCfg (i + 1) hs s'
    | .error e => .error s!"err:{errName e}@{i}"

/-- `crash` / `crashr`: AddBlock stopped at crash point k; the guards of AddBlock / saveBlock / submitBlock decide whether
the point is reached at all; then (crashr) restarts that stop inside recoverStore; then a normal restart -/
def crashOp (w : World) (p : Params) (g : Block) (s : State) (name k : String) (rs : Option String) : World × String :=
  match findBlock w name, k.toNat?, (match rs with | none => some [] | some t => parseNats t) with
  | some b, some k, some rl =>
    if b.header.height ≤ s.mem.currHeight then (w, "nocrash:ok " ++ observe p s)
    else
    let ex := executeBlock p s b
    -- the verdict of AddBlock up to the point where submitBlock starts writing (the execution result is reused)
    let verdict : Except Err Unit :=
      if b.header.height ≠ s.mem.currHeight + 1 then .error .height
      else match verifyHeader p s b.header s.mem.peersB with
        | .error e => .error e
        | .ok _ => submitGuards p s b
    match verdict with
    | .error e => (w, "nocrash:err:" ++ errName e ++ " " ++ observe p s)
    | .ok _ =>
      match crashDurable p s b ex.1 k with
      | none => (w, "nocrash:err:other " ++ observe p s)
      | some d0 =>
        let (d, pat) := rl.foldl (fun (acc : Durable × String) r =>
          match reopenCrash p g acc.1 r with
          | some d' => (d', acc.2 ++ "R")
          | none => match reopen p g acc.1 with
            | .ok t => (t.dur, acc.2 ++ "n")
            | .error _ => (acc.1, acc.2 ++ "e")) (d0, "")
        let pat := if rs.isSome then " " ++ pat else ""
        match reopen p g d with
        | .ok s' => ({ w with st := some s' }, "crashed" ++ pat ++ " ok " ++ observe p s')
        | .error e => ({ w with st := none, dead := some ("err:" ++ errName e) }, "crashed" ++ pat ++ " err:" ++ errName e)
  | _, _, _ => (w, "bad-op")

def step (w : World) (toks : List String) : World × String :=
  match toks with
  | ["genesis", n, net, ev, ts, txs, hash, _twin] =>
    match n.toNat?, ts.toNat?, parseTxs txs, Hex.ofHex hash with
    | some n, some ts, some txs, some hash =>
      let g : Block := { header := { height := 0, hash := hash, prev := zeroHash, timestamp := ts, blockRoot := zeroHash,
                                     bookkeepers := [], sigs := [], newCfg := some (List.range n), lastCfg := 0 }, txs := txs }
      let netId : Int := if net == "main" then 1 else 2
      let p := mkParams netId (ev == "1")
      let w' : World := { st := none, dead := none, blocks := [("g", g)], gen := some g, net := netId, ev := ev == "1" }
      match initLedger p g with
      | .ok s => ({ w' with st := some s }, "ok " ++ observe p s)
      | .error e => (w', "err:" ++ errName e)
    | _, _, _, _ => (w, "bad-op")
  | ["gcrash", n, net, ev, ts, txs, hash, _twin, k] =>
    -- the first start is stopped at crash point k of the genesis block's submitBlock; second start on the same directory
    match n.toNat?, ts.toNat?, parseTxs txs, Hex.ofHex hash, k.toNat? with
    | some n, some ts, some txs, some hash, some k =>
      let g : Block := { header := { height := 0, hash := hash, prev := zeroHash, timestamp := ts, blockRoot := zeroHash,
                                     bookkeepers := [], sigs := [], newCfg := some (List.range n), lastCfg := 0 }, txs := txs }
      let netId : Int := if net == "main" then 1 else 2
      let p := mkParams netId (ev == "1")
      let w' : World := { st := none, dead := none, blocks := [("g", g)], gen := some g, net := netId, ev := ev == "1" }
      let s0 : State := { dur := Durable.empty, mem := emptyMem }
      let d := persisted s0.dur (fillAll p s0 g (executeBlock p s0 g).1) k
      match reopen p g d with
      | .ok s => ({ w' with st := some s }, "crashed ok " ++ observe p s)
      | .error e => ({ w' with dead := some ("err:" ++ errName e) }, "crashed err:" ++ errName e)
    | _, _, _, _, _ => (w, "bad-op")
  | ["blk", name, h, prev, ts, root, txs, bks, sigs, cfg, lastCfg, hash] =>
    let sg : Option (List Sig) := if sigs == "-" then some [] else (splitOn1 sigs ',').mapM sigOfToken
    let cf : Option (Option (List Nat)) :=
      if cfg == "-" || cfg == "x" then some none
      else match cfg.toList with
        | 'c' :: r => (parseNats (String.ofList r)).map some
        | _ => none
    match h.toNat?, Hex.ofHex prev, ts.toNat?, Hex.ofHex root, parseTxs txs, parseNats bks, sg, cf, lastCfg.toNat?, Hex.ofHex hash with
    | some h, some prev, some ts, some root, some txs, some bks, some sg, some cf, some lc, some hash =>
      let b : Block := { header := { height := h, hash := hash, prev := prev, timestamp := ts, blockRoot := root,
                                     bookkeepers := bks, sigs := sg, newCfg := cf, lastCfg := lc,
                                     payloadOk := cfg != "x" }, txs := txs }
      ({ w with blocks := (name, b) :: w.blocks.filter (·.1 != name) }, "def")
    | _, _, _, _, _, _, _, _, _, _ => (w, "bad-op")
  | op :: args =>
    let p := mkParams w.net w.ev
    match w.gen with
    | none => (w, "bad-op:no-ledger")
    | some g =>
    match op, args, w.st with
    | "fast", ts0 :: lc :: hashes, some s =>
      match ts0.toNat?, lc.toNat?, hashes.mapM Hex.ofHex with
      | some ts0, some lc, some hs =>
        match fastAdd p ts0 lc 0 hs s with
        | .ok s' =>
          let named := (hs.zipIdx.map fun (h, i) => (s!"f{s.mem.currHeight + 1 + i}", h))
          let blocks' := named.foldl (fun acc (nh : String × Hash) =>
            match s'.dur.blocks.blockAt nh.2 with
            | some b => (nh.1, b) :: acc
            | none => acc) w.blocks
          ({ w with st := some s', blocks := blocks' }, "ok " ++ observe p s')
        | .error e => (w, e)
      | _, _, _ => (w, "bad-op")
    | "prefill", [n], some s =>
      match n.toNat? with
      | some n =>
        -- dummy entries: only the number of entries (header height) matters; existing entries are kept
        let dummy : Hash := 0xff :: List.replicate 31 0
        let m := s.mem
        let s' : State := { s with mem := { m with
          headerIndex := fun i => match m.headerIndex i with
            | some h => some h
            | none => if m.headerCount ≤ i ∧ i < n then some dummy else none,
          headerCount := max m.headerCount n } }
        ({ w with st := some s' }, "ok " ++ observe p s')
      | none => (w, "bad-op")
    | "root", [start, hs], some s =>
      match start.toNat?, (if hs == "-" then some [] else (splitOn1 hs ',').mapM Hex.ofHex) with
      | some start, some pre =>
        match blockRootWithPre p s start pre with
        | some r => (w, hex r)
        | none => (w, "panic")
      | _, _ => (w, "bad-op")
    | "obs", [], some s => (w, observe p s)
    | "obs", [], none => (w, "closed:" ++ w.dead.getD "")
    | "reopen", [], some s =>
      match reopen p g s.dur with
      | .ok s' => ({ w with st := some s' }, "ok " ++ observe p s')
      | .error e => ({ w with st := none, dead := some ("err:" ++ errName e) }, "err:" ++ errName e)
    | "get", [name], some s =>
      match findBlock w name with
      | some b => (w, lookup s b)
      | none => (w, "bad-op")
    | "vh", [name, set], some s =>
      match findBlock w name, parseNats set with
      | some b, some set =>
        match verifyHeader p s b.header (dedupKeys set) with
        | .ok set' => (w, "ok " ++ showSet set')
        | .error e => (w, "err:" ++ errName e ++ " " ++ showSet (dedupKeys set))
      | _, _ => (w, "bad-op")
    | "hdr", [name], some s =>
      match findBlock w name with
      | some b =>
        match addHeader p s b.header with
        | .ok s' => ({ w with st := some s' }, "ok " ++ observe p s')
        | .error e => (w, "err:" ++ errName e ++ " " ++ observe p s)
      | none => (w, "bad-op")
    | "sub", [name], some s =>
      match findBlock w name with
      | some b =>
        match submitChecked p s b with
        | .ok s' => ({ w with st := some s' }, "ok " ++ observe p s')
        | .error e => (w, "err:" ++ errName e ++ " " ++ observe p s)
      | none => (w, "bad-op")
    | "add", name :: rest, some s =>
      match findBlock w name with
      | some b =>
        -- the harness obtains the state root from ExecuteBlock on the same state (zero when that call fails)
        let root0 := if b.header.height = s.mem.currHeight + 1 then (executeBlock p s b).2 else zeroHash
        let root := if rest == ["badroot"] then flipRoot root0 else root0
        match addBlock p s b root with
        | .ok s' => ({ w with st := some s' }, "ok " ++ observe p s')
        | .error e => (w, "err:" ++ errName e ++ " " ++ observe p s)
      | none => (w, "bad-op")
    | "crash", [name, k], some s => crashOp w p g s name k none
    | "crashr", [name, k, rs], some s => crashOp w p g s name k (some rs)
    | "add", _, none => (w, "closed")
    | "sub", _, none => (w, "closed")
    | "hdr", _, none => (w, "closed")
    | "crash", _, none => (w, "closed")
    | "crashr", _, none => (w, "closed")
    | "reopen", [], none =>
      -- a ledger that could not be reopened stays unusable in the harness as well (its stores are closed)
      (w, w.dead.getD "err:other")
    | _, _, _ => (w, "bad-op")
  | _ => (w, "bad-op")

end LedgerDrv

def main (args : List String) : IO Unit :=
  match args with
  | ["ledger"] => Proto.run ({} : LedgerDrv.World) LedgerDrv.step
  | _ => IO.eprintln "usage: drv_ledger ledger"
