import Poly.Util.Sha256
import Poly.Util.Proto
import Poly.Model.CMsg
/- Driver for the consensus-message family (C44). `drv_cmsg cmsg` reads op lines on stdin. -/
open Poly
open Poly.Model.CMsg

namespace CMsgDrv

def n (s : String) : Nat := Proto.natOf s
def b (s : String) : Bytes := Proto.bytesOf s

def kindOfNat (k : Nat) : Option Kind := Kind.all[k]?

def step (_ : Unit) (toks : List String) : Unit × String :=
  match toks with
  | ["cpenc", v, ph, h, bi, ts, d, own, sg] =>
    let p : CPayload := ⟨n v, b ph, n h, n bi, n ts, b d, b own, b sg, 77⟩
    ((), Hex.showHex p.encode ++ " u=" ++ Hex.showHex p.signed.bytes)
  | ["cpdec", raw, keyOk, canonKey] =>
    -- the owner is reported as the canonical serialization of the parsed key (supplied: external parser)
    match decodePayload (fun _ => keyOk == "1") (b raw) with
    | .ok p => ((), s!"ok {p.version} {Hex.showHex p.prevHash} {p.height} {p.bookkeeperIndex} {p.timestamp} {Hex.showHex p.data} {canonKey} {Hex.showHex p.signature}")
    | .error .pubkey => ((), "reject:pubkey")
    | .error _ => ((), "eof")
  | ["hdr", v, c, a1, a2, a3, a4, ts, ht, cd, cp, nb] =>
    let h : HeaderU := ⟨n v, n c, b a1, b a2, b a3, b a4, n ts, n ht, n cd, b cp, b nb⟩
    ((), Hex.showHex (h.hash Sha256.sha256))
  | ["env", ty, ln, pl, inner] =>
    match deserializeEnv (fun _ _ => if inner == "1" then some () else none) ⟨n ty, n ln, b pl⟩ with
    | .ok (k, _) => ((), "ok:" ++ k.structName)
    | .error .len => ((), "reject:len")
    | .error .unknown => ((), "reject:unknown")
    | .error _ => ((), "reject:inner")
  | ["rt", k, _] =>
    match kindOfNat (n k) with
    | some kd => ((), s!"ok type={kd.code} struct={kd.structName} enc={if kd.isJson then "json" else "custom"}")
    | none => ((), "bad-op")
  | ["held", _, cnt, gs] => ((), s!"ok n={n cnt * (if n gs < 1 then 1 else n gs)}")   -- encodings are values: later calls cannot change them
  | ["sigcp", f, _] => ((), if cpFieldCovered f then "verify=fail" else "verify=ok")
  | ["sigprop", f, _, ep] => ((), propOutcome f (ep == "1"))
  | _ => ((), "bad-op")

end CMsgDrv

def main (args : List String) : IO Unit :=
  match args with
  | ["cmsg"] => Proto.run () CMsgDrv.step
  | _ => IO.eprintln "usage: drv_cmsg <family>"
