import Poly.Util.Sha256
import Poly.Util.Proto
import Poly.Model.Wallet
/- Driver for the wallet family (C43). `drv_wallet wallet` reads op lines on stdin.
   Keys are symbolic: key i has address "A<i>"; a protected key is the symbolic term of what was protected, and
   `unprotect` is the ideal behaviour of the two supported formats: aes-256-gcm authenticates (a wrong password
   gives an error), legacy aes-256-ctr does not (a wrong password gives some other key). Passwords are compared as
   HMAC keys, which is how scrypt (PBKDF2-HMAC-SHA256) consumes them: zero-padded to 64 bytes, hashed when longer. -/
open Poly
open Poly.Model.Wallet

namespace WalletDrv

structure Blob where
  key : Nat
  pwKey : Bytes
  params : Params
  ctr : Bool
deriving Repr

/-- the HMAC-SHA256 key block of a password -/
def hmacKey (pw : Bytes) : Bytes :=
  let k := if pw.length ≤ 64 then pw else Sha256.sha256 pw
  k ++ List.replicate (64 - k.length) 0

def garbage : Nat := 1000000

def algOfCode (c : Nat) : String := if c == 1 then "SM2" else if c == 2 then "Ed25519" else "ECDSA"

/-- key ids carry their algorithm: id = 3 * index + code -/
def crypto : Crypto Nat Blob where
  protect := fun k _ pw ps _ => ⟨k, hmacKey pw, ps, false⟩
  unprotect := fun b pw ps =>
    if pw.isEmpty then none
    else if hmacKey pw == b.pwKey && ps == b.params then some b.key
    else if b.ctr then some (garbage + b.key) else none
  addrOf := fun k => if k < garbage then s!"A{k / 3}" else "other"
  algOf := fun k => algOfCode (k % 3)

def algCode (alg : String) : Nat := if alg == "SM2" then 1 else if alg == "Ed25519" then 2 else 0

structure St where
  c : Client Blob
  nkeys : Nat

def lowParams : Params := ⟨4096, 8, 8, 64⟩

def tinyParams : Params := ⟨256, 8, 1, 64⟩

def hexStr (s : String) : String := String.fromUTF8! (ByteArray.mk (Proto.bytesOf s).toArray)

def toHexStr (s : String) : String := Hex.showHex s.toUTF8.toList

def errStr : Err → String
  | .emptyPassword => "err:emptyPassword" | .sigScheme => "err:sigScheme" | .dupLabel => "err:dupLabel"
  | .notFound => "err:notFound" | .decrypt => "err:decrypt" | .isDefault => "err:isDefault"
  | .noDefault => "err:noDefault" | .addrMismatch => "err:addrMismatch" | .badScheme => "err:badScheme"

def accOut : Except Err (Option (Nat × String)) → String
  | .error e => errStr e
  | .ok none => "nil"
  | .ok (some (_, a)) => "ok " ++ a

def metaOf (c : Client Blob) (addr : String) : Option (Acc Blob) :=
  match mget c.accAddrs addr with
  | some id => hget c.heap id
  | none => none

def addOut (c : Client Blob) (addr : String) : String :=
  match metaOf c addr with
  | some a => s!"ok {addr} def={a.isDefault}"
  | none => "ok-but-missing"

def symOfKey (k : Nat) : String := s!"A{k / 3}"

def step (s : St) (toks : List String) : St × String :=
  let c := s.c
  match toks with
  | ["open", kind] =>
    if kind == "low" then
      (⟨{ (Client.fresh lowParams : Client Blob) with file := some (lowParams, []) }, 0⟩, "ok")
    else if kind == "tiny" then
      (⟨{ (Client.fresh tinyParams : Client Blob) with file := some (tinyParams, []) }, 0⟩, "ok")
    else (⟨Client.fresh defaultParams, 0⟩, "ok")
  | ["new", label, alg, _curve, scheme, pw] =>
    let key := 3 * s.nkeys + algCode alg
    match c.newAccount crypto (hexStr label) scheme (Proto.bytesOf pw) key [] with
    | .error e => (s, errStr e)
    | .ok c' => (⟨c', s.nkeys + 1⟩, addOut c' (symOfKey key))
  | ["import", label, ref, pw, mode, scheme, alg, _curve] =>
    let isNew := ref == "new"
    let key := if isNew then 3 * s.nkeys + algCode alg
               else 3 * Proto.natOf (ref.drop 1).toString + algCode alg
    let pwb := Proto.bytesOf pw
    let blob : Blob := ⟨key, hmacKey pwb, c.params, mode == "ctr"⟩
    let a : Acc Blob := ⟨symOfKey key, algOfCode (key % 3), blob, hexStr label, scheme, false⟩
    match c.importAccount a with
    | .error e => (s, errStr e)
    | .ok c' => (⟨c', if isNew then s.nkeys + 1 else s.nkeys⟩, addOut c' (symOfKey key))
  | ["get", a, pw] => (s, accOut (c.getByAddress crypto a (Proto.bytesOf pw)))
  | ["getlabel", l, pw] => (s, accOut (c.getByLabel crypto (hexStr l) (Proto.bytesOf pw)))
  | ["getidx", i, pw] => (s, accOut (c.getByIndex crypto (Proto.natOf i) (Proto.bytesOf pw)))
  | ["getdef", pw] => (s, accOut ((c.getDefault crypto (Proto.bytesOf pw)).map some))
  | ["meta", a] =>
    match metaOf c a with
    | some m => (s, s!"label={toHexStr m.label} def={m.isDefault} scheme={m.sigScheme} alg={m.alg}")
    | none => (s, "nil")
  | ["del", a, pw] =>
    match c.deleteAccount crypto a (Proto.bytesOf pw) with
    | .error e => (s, errStr e)
    | .ok none => (s, "nil")
    | .ok (some c') => (⟨c', s.nkeys⟩, "ok " ++ a)
  | ["setdef", a] =>
    match c.setDefault a with
    | .error e => (s, errStr e)
    | .ok c' => (⟨c', s.nkeys⟩, "ok")
  | ["setlabel", a, l] =>
    match c.setLabel a (hexStr l) with
    | .error e => (s, errStr e)
    | .ok c' => (⟨c', s.nkeys⟩, "ok")
  | ["chpw", a, o, n] =>
    match c.changePassword crypto a (Proto.bytesOf o) (Proto.bytesOf n) [] with
    | .error e => (s, errStr e)
    | .ok c' => (⟨c', s.nkeys⟩, "ok")
  | ["chsig", a, sch] =>
    match c.changeSigScheme a sch with
    | .error e => (s, errStr e)
    | .ok c' => (⟨c', s.nkeys⟩, "ok")
  | ["seclevel", kind, pws] =>
    let l := if pws == "-" then [] else (pws.splitOn ",").map Proto.bytesOf
    match c.reencrypt crypto l (if kind == "low" then some lowParams else none) with
    | .ok c' => (⟨c'.save, s.nkeys⟩, "ok")
    | .countMismatch => (s, "err:count")
    | .failed i => (s, s!"err:failed:{i}")
  | ["exportlow", pws] =>
    -- works on a clone: the wallet itself is not changed; the export is refused when an account does not decrypt with
    -- the password given for it (e.g. an account imported with an empty password can never be decrypted)
    let l := if pws == "-" then [] else (pws.splitOn ",").map Proto.bytesOf
    match c.reencrypt crypto l (some lowParams) with
    | .ok _ => (s, "ok")
    | _ => (s, "err:export")
  | ["save"] => (⟨c.save, s.nkeys⟩, "ok")
  | ["ximport", a] => (s, if (metaOf c a).isSome then "ok" else "nil")   -- the other wallet is outside the model
  | ["chpwfault", a, o, n] =>
    -- everything up to the save happens, the save fails, the change is rolled back
    match c.changePassword crypto a (Proto.bytesOf o) (Proto.bytesOf n) [] with
    | .error e => (s, errStr e)
    | .ok _ => (s, if o == n then "ok-unexpected" else "err:save")
  | ["chpwconc", a, o, news] =>
    -- the write lock serialises the calls: the first one succeeds iff the old password is right, the others then
    -- present a password that is no longer valid
    let first := ((news.splitOn ",").headD "")
    match c.changePassword crypto a (Proto.bytesOf o) (Proto.bytesOf first) [] with
    | .error _ => (s, "winners=0")
    | .ok _ => (s, "winners=1")
  | ["chpwwon", a, o, n] =>
    match c.changePassword crypto a (Proto.bytesOf o) (Proto.bytesOf n) [] with
    | .error e => (s, errStr e)
    | .ok c' => (⟨c', s.nkeys⟩, "ok")
  | ["reload"] =>
    let c' := c.reopen
    (⟨c', s.nkeys⟩, s!"ok n={c'.num} file={c'.accounts.length}")
  | ["num"] => (s, toString c.num)
  | ["audit"] => (s, "ok")
  | ["auditlive"] => (s, "ok")
  | _ => (s, "bad-op")

end WalletDrv

def main (args : List String) : IO Unit :=
  match args with
  | ["wallet"] => Proto.run (⟨Client.fresh defaultParams, 0⟩ : WalletDrv.St) WalletDrv.step
  | _ => IO.eprintln "usage: drv_wallet <family>"
