import Poly.Util.Sha256
import Poly.Util.Proto
import Poly.Model.Gov
/- Driver for the governance families. `drv_gov gov` reads op lines on stdin (vocabulary: harness/cmd/hgov/ops.go). -/
open Poly
open Poly.Model.Gov

namespace GovDrv

def tok (s : String) : String := if s == "-" then "" else s
def untok (s : String) : String := if s.isEmpty then "-" else s

def addr? (s : String) : Option Addr :=
  match Hex.ofHexChars s.toList with
  | some b => if b.length = 20 then some b else none
  | none => none

def signers? (s : String) : Option (List Addr) :=
  if s == "-" then some [] else (s.splitOn ",").mapM addr?

def hexList? (s : String) : Option (List Bytes) :=
  if s == "-" then some [] else (s.splitOn ",").mapM Hex.ofHex

def nat? (s : String) : Option Nat := if s.isEmpty || !s.all Char.isDigit then none else s.toNat?

def strOfBytes (b : Bytes) : String := String.fromUTF8! ⟨b.toArray⟩

def peer? (s : String) : Option (Nat × String × Addr) :=
  match s.splitOn ":" with
  | [i, pk, a] => do
    let i ← nat? i
    let a ← addr? a
    pure (i, tok pk, a)
  | _ => none

def parse (toks : List String) : Option Op :=
  match toks with
  | ["key", pk, a] => do pure (.key (← Hex.ofHexChars pk.toList) (← addr? a))
  | ["height", h] => do pure (.height (← nat? h))
  | ["time", t] => do pure (.time (← nat? t))
  | ["fee", sg, a, chain, view, fee] => do pure (.fee (← signers? sg) (← addr? a) (← nat? chain) (← nat? view) (← nat? fee))
  | "init" :: mbcv :: peers => do pure (.init (← nat? mbcv) (← peers.mapM peer?))
  | ["reg", sg, pk, a] => do pure (.reg (← signers? sg) (tok pk) (← addr? a))
  | ["unreg", sg, pk, a] => do pure (.unreg (← signers? sg) (tok pk) (← addr? a))
  | ["appr", sg, pk, a] => do pure (.appr (← signers? sg) (tok pk) (← addr? a))
  | ["white", sg, pk, a] => do pure (.white (← signers? sg) (tok pk) (← addr? a))
  | ["quit", sg, pk, a] => do pure (.quit (← signers? sg) (tok pk) (← addr? a))
  | "black" :: sg :: a :: pks => do pure (.black (← signers? sg) (← addr? a) (pks.map tok))
  | ["commit", sg, o] => do pure (.commit (← signers? sg) (← addr? o))
  | ["updcfg", sg, o, a, b, c, d] => do
    pure (.updcfg (← signers? sg) (← addr? o) { blockMsgDelay := ← nat? a, hashMsgDelay := ← nat? b, peerHandshakeTimeout := ← nat? c, maxBlockChangeView := ← nat? d })
  | ["rdeposit", sg, rel, chain, h, extra, id, ccid, cont] => do
    let _ ← nat? h
    let _ ← Hex.ofHex extra
    let c ← if ccid == "none" then some none else (Hex.ofHex ccid).map some
    let k ← if cont == "ok" then some true else if cont == "fail" then some false else none
    pure (.deposit (← signers? sg) (← addr? rel) (← nat? chain) (← Hex.ofHex id) c k)
  | [k, sg, a, id, router, name, btw, ccmc, extra] => do
    let r : SideChain := { addr := ← addr? a, chainId := ← nat? id, router := ← nat? router, name := ← Hex.ofHex name, btw := ← nat? btw,
                           ccmc := ← Hex.ofHex ccmc, extra := ← Hex.ofHex extra }
    if k == "screg" then pure (.screg (← signers? sg) r) else if k == "scupd" then pure (.scupd (← signers? sg) r) else none
  | ["deposit", sg, rel, chain, h, extra, id, ccid] => do
    let _ ← nat? h
    let _ ← Hex.ofHex extra
    let c ← if ccid == "none" then some none else (Hex.ofHex ccid).map some
    pure (.deposit (← signers? sg) (← addr? rel) (← nat? chain) (← Hex.ofHex id) c true)
  | ["admit", sg] => do pure (.submit (← signers? sg))
  | ["admitx", _, derived] => do pure (.submit (← signers? derived))
  | ["refresh", o] => if o == "-" then some (.refresh none) else do pure (.refresh (some (← addr? o)))
  | ["restart"] => some .restart
  | ["sig", sg, a, cid, subject, sig, _] => do
    let _ ← nat? cid
    pure (.sig (← signers? sg) (← addr? a) (← Hex.ofHex subject) (← Hex.ofHex sig))
  | ["vote", sg, id, a] => do
    let _ ← signers? sg
    pure (.vote (← Hex.ofHex id) (← addr? a))
  | [k, sg, x, y] =>
    if k == "rlreg" || k == "rlrm" then do
      let l ← signers? y
      if k == "rlreg" then pure (.rlreg (← signers? sg) (← addr? x) l) else pure (.rlrm (← signers? sg) (← addr? x) l)
    else if k == "svreg" || k == "svrm" then do
      let l := (← hexList? y).map strOfBytes
      if k == "svreg" then pure (.svreg (← signers? sg) (← addr? x) l) else pure (.svrm (← signers? sg) (← addr? x) l)
    else do
      let sg ← signers? sg
      let id ← nat? x
      let a ← addr? y
      match k with
      | "scappr" => pure (.scappr sg id a)
      | "scapprupd" => pure (.scapprupd sg id a)
      | "scquit" => pure (.scquit sg id a)
      | "scapprquit" => pure (.scapprquit sg id a)
      | "rlappr" => pure (.rlappr sg id a)
      | "rlapprrm" => pure (.rlapprrm sg id a)
      | "svappr" => pure (.svappr sg id a)
      | "svapprrm" => pure (.svapprrm sg id a)
      | _ => none
  | _ => none

/-! canonical state text (same format as harness/cmd/hgov/dump.go) -/

def sortBy {α : Type} (le : α → α → Bool) (l : List α) : List α := l.mergeSort le

def joinWith (sep : String) (l : List String) : String := sep.intercalate l

def hexs (b : Bytes) : String := Hex.showHex b

def mapByHex {ν : Type} (l : List (Bytes × ν)) (f : ν → String) : String :=
  let es := l.map (fun p => (hexs p.1, f p.2))
  "[" ++ joinWith "|" ((sortBy (fun a b => decide (a.1 ≤ b.1)) es).map (fun p => p.1 ++ ">" ++ p.2)) ++ "]"

def mapByNat {ν : Type} (l : List (Nat × ν)) (f : ν → String) : String :=
  "[" ++ joinWith "|" ((sortBy (fun a b => decide (a.1 ≤ b.1)) l).map (fun p => toString p.1 ++ ">" ++ f p.2)) ++ "]"

def scRec (r : SideChain) : String :=
  joinWith ":" [Hex.toHex r.addr, toString r.chainId, toString r.router, hexs r.name, toString r.btw, hexs r.ccmc, hexs r.extra]

def optNat : Option Nat → String
  | none => "-"
  | some n => toString n

def addrList (l : List Addr) : String := untok (joinWith "," (l.map Hex.toHex))
def strList (l : List String) : String := untok (joinWith "," (l.map (fun s => hexs (strBytes s))))

def dump (s : State) : String :=
  let gv := match s.gv with
    | none => "gv=-"
    | some g => "gv=" ++ toString g.view ++ "," ++ toString g.height
  let cfg := match s.cfg with
    | none => "-"
    | some c => joinWith "," [toString c.blockMsgDelay, toString c.hashMsgDelay, toString c.peerHandshakeTimeout, toString c.maxBlockChangeView]
  let pools := (sortBy (fun a b => decide (a.1 ≤ b.1)) s.pools).map (fun p =>
    ";pool" ++ toString p.1 ++ "=[" ++ joinWith "|" ((sortBy (fun (a b : PeerItem) => decide (a.pk ≥ b.pk)) p.2).map (fun it =>
      joinWith ":" [toString it.index, untok it.pk, Hex.toHex it.addr, toString it.status.code])) ++ "]")
  let pkAddr := fun (p : String × Addr) => untok p.1 ++ ":" ++ Hex.toHex p.2
  let sortedAddrs := fun (l : List Addr) => joinWith "," (sortBy (fun a b => decide (a ≤ b)) (l.map Hex.toHex))
  let reqA := fun (p : List Addr × Addr) => addrList p.1 ++ "/" ++ Hex.toHex p.2
  let reqS := fun (p : List String × Addr) => strList p.1 ++ "/" ++ Hex.toHex p.2
  let sv := match s.svs with
    | none => "-"
    | some l => "[" ++ strList l ++ "]"
  let bool := fun (b : Bool) => if b then "true" else "false"
  gv ++ ";ci=" ++ optNat s.candIndex ++ ";cfg=" ++ cfg ++ String.join pools
    ++ ";apply=" ++ mapByHex s.apply pkAddr ++ ";pidx=" ++ mapByHex s.pidx toString ++ ";black=" ++ mapByHex s.black pkAddr
    ++ ";signs=" ++ mapByHex s.signs sortedAddrs
    ++ ";scapply=" ++ mapByNat s.scApply scRec ++ ";scupd=" ++ mapByNat s.scUpd scRec
    ++ ";scquit=[" ++ joinWith "," ((sortBy (fun a b => decide (a ≤ b)) s.scQuit).map toString) ++ "];sc=" ++ mapByNat s.sc scRec
    ++ ";fee=" ++ mapByNat s.fees (fun p => toString p.1 ++ ":" ++ toString p.2)
    ++ ";feeinfo=[" ++ joinWith "|" ((sortBy (fun a b => decide (a.1.1 < b.1.1 ∨ (a.1.1 = b.1.1 ∧ a.1.2 ≤ b.1.2))) s.feeInfos).map (fun p =>
        toString p.1.1 ++ "/" ++ toString p.1.2 ++ ">" ++ toString p.2.1 ++ ":" ++
          joinWith "," (sortBy (fun a b => decide (a ≤ b)) (p.2.2.map (fun e => Hex.toHex e.1 ++ "=" ++ toString e.2))))) ++ "]"
    ++ ";rl=[" ++ sortedAddrs s.relayers ++ "];rlapply=" ++ mapByNat s.rlApply reqA ++ ";rlrm=" ++ mapByNat s.rlRemove reqA
    ++ ";rlaid=" ++ optNat s.rlApplyId ++ ";rlrid=" ++ optNat s.rlRemoveId
    ++ ";sv=" ++ sv ++ ";svapply=" ++ mapByNat s.svApply reqS ++ ";svrm=" ++ mapByNat s.svRemove reqS
    ++ ";svaid=" ++ optNat s.svApplyId ++ ";svrid=" ++ optNat s.svRemoveId
    ++ ";sig=" ++ mapByHex s.sigs (fun p => bool p.1 ++ ":" ++ joinWith "," (sortBy (fun a b => decide (a ≤ b)) (p.2.map (fun e => Hex.toHex e.1 ++ "=" ++ hexs e.2))))
    ++ ";vote=" ++ mapByHex s.votes (fun p => bool p.1 ++ ":" ++ sortedAddrs p.2)
    ++ ";done=[" ++ joinWith "," (sortBy (fun a b => decide (a ≤ b)) (s.doneTx.map (fun p => toString p.1 ++ "/" ++ hexs p.2))) ++ "]"
    ++ ";perm=[" ++ sortedAddrs s.permitted ++ "]"

def digest (s : State) : String := Hex.toHex ((Sha256.sha256 (dump s).toUTF8.toList).take 6)

/-- outcome line of one executed op; `shown` is the state whose digest is printed -/
def outcome (s : State) (op : Op) (dry : Bool) : State × String :=
  match exec Sha256.sha256 s op with
  | .ok o =>
    let shown := if dry then s else o.st
    match op with
    | .key _ _ => (o.st, "ok")
    | .height _ => (o.st, "ok")
    | .time _ => (o.st, "ok")
    | .restart => (o.st, "ok")
    | _ => (shown, "ok:" ++ o.ret ++ " " ++ untok (joinWith "," o.events) ++ " " ++ digest shown)
  | .error .err => (s, "err " ++ digest s)
  | .error .panic => (s, "panic " ++ digest s)

def dryable : List String → Bool
  | [] => false
  | t :: _ => !(["key", "height", "time", "dump", "dry", "admit", "admitx", "refresh", "restart", "assetbind"].contains t)

def step (s : State) (toks : List String) : State × String :=
  match toks with
  | ["dump"] => (s, dump s)
  | ["assetbind", _, _, _, _] => (s, "ok")
  | "dry" :: rest =>
    if !dryable rest then (s, "bad-op") else
    match parse rest with
    | none => (s, "dry bad-op")
    | some op => (s, "dry " ++ (outcome s op true).2)
  | _ =>
    match parse toks with
    | none => (s, "bad-op")
    | some op => outcome s op false

end GovDrv

def main (args : List String) : IO Unit :=
  match args with
  | ["gov"] => Proto.run ({} : State) GovDrv.step
  | _ => IO.eprintln "usage: drv_gov gov"
