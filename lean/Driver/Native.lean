import Poly.Util.Sha256
import Poly.Util.Proto
import Poly.Model.Native
import Poly.Model.NativeWitness
import Poly.Generated.Guards
import Poly.Model.Sig
/- Driver for the native-runtime families. `drv_native <family>` reads op lines on stdin. -/
open Poly
open Poly.Model.Native

namespace AtomicDrv

def addrOf (b : UInt8) : Addr := List.replicate 20 b
def addrA : Addr := addrOf 0xa1
def addrB : Addr := addrOf 0xb2
def addrN : Addr := addrOf 0xc3

/-- Symbolic address names of the op language. -/
def addrNamed (s : String) : Option Addr :=
  match s with
  | "A" => some addrA
  | "B" => some addrB
  | "N" => some addrN
  | "z" => some emptyAddr
  | "s0" => some (addrOf 0x50)
  | "s1" => some (addrOf 0x51)
  | "s2" => some (addrOf 0x52)
  | "s3" => some (addrOf 0x53)
  | "s4" => some (addrOf 0x54)
  | "s5" => some (addrOf 0x55)
  | _ => none

def ascii (s : String) : Bytes := s.toUTF8.toList
def textOf (b : Bytes) : String := String.ofList (b.map fun c => Char.ofNat c.toNat)

inductive Instr where
  | put (k v : Bytes) | del (k : Bytes) | get (k : Bytes) | cp (a b : Bytes) | ntf (d : Bytes) | mkl (d : Bytes)
  | fail | panic | ret (d : Bytes) | wit (a : Addr) | inp | ctx | bi
  | call (propagate : Bool) (a : Addr) (m : Bytes) (args : Bytes)

/-- Tokens up to the bracket matching an already consumed `[`; returns (inside, rest). -/
def splitBracket : Nat → List String → List String → Option (List String × List String)
  | _, _, [] => none
  | d, acc, "]" :: r => if d = 0 then some (acc.reverse, r) else splitBracket (d - 1) ("]" :: acc) r
  | d, acc, "[" :: r => splitBracket (d + 1) ("[" :: acc) r
  | d, acc, t :: r => splitBracket d (t :: acc) r

def target (s : String) : Option (Addr × Bytes) :=
  match s.splitOn "." with
  | [c, m] => (addrNamed c).map fun a => (a, ascii m)
  | _ => none

partial def parseInstrs : List String → Option (List Instr)
  | [] => some []
  | "put" :: k :: v :: r => do pure (.put (← Hex.ofHex k) (← Hex.ofHex v) :: (← parseInstrs r))
  | "del" :: k :: r => do pure (.del (← Hex.ofHex k) :: (← parseInstrs r))
  | "get" :: k :: r => do pure (.get (← Hex.ofHex k) :: (← parseInstrs r))
  | "cp" :: a :: b :: r => do pure (.cp (← Hex.ofHex a) (← Hex.ofHex b) :: (← parseInstrs r))
  | "ntf" :: d :: r => do pure (.ntf (← Hex.ofHex d) :: (← parseInstrs r))
  | "mkl" :: d :: r => do pure (.mkl (← Hex.ofHex d) :: (← parseInstrs r))
  | "fail" :: r => do pure (.fail :: (← parseInstrs r))
  | "panic" :: r => do pure (.panic :: (← parseInstrs r))
  | "ret" :: d :: r => do pure (.ret (← Hex.ofHex d) :: (← parseInstrs r))
  | "wit" :: a :: r => do pure (.wit (← addrNamed a) :: (← parseInstrs r))
  | "inp" :: r => do pure (.inp :: (← parseInstrs r))
  | "ctx" :: r => do pure (.ctx :: (← parseInstrs r))
  | "bi" :: r => do pure (.bi :: (← parseInstrs r))
  | "call" :: t :: "[" :: r => do
    let (a, m) ← target t
    let (inside, rest) ← splitBracket 0 [] r
    pure (.call true a m (ascii (" ".intercalate inside)) :: (← parseInstrs rest))
  | "try" :: t :: "[" :: r => do
    let (a, m) ← target t
    let (inside, rest) ← splitBracket 0 [] r
    pure (.call false a m (ascii (" ".intercalate inside)) :: (← parseInstrs rest))
  | _ => none

def short (a : Addr) : String := Hex.toHex (a.take 1)

def compile : List Instr → Prog
  | [] => .ret [1]
  | .put k v :: r => .put k v (compile r)
  | .del k :: r => .del k (compile r)
  | .get k :: r => .get k fun v => .log ("g:" ++ Hex.showHex v) (compile r)
  | .cp a b :: r => .get a fun v => .put b v (compile r)
  | .ntf d :: r => .context fun cur _ => .notify ⟨cur, d⟩ (compile r)
  | .mkl d :: r => .merkle d (compile r)
  | .fail :: _ => .fail
  | .panic :: _ => .panic
  | .ret d :: _ => .ret d
  | .wit a :: r => .witness a fun b => .log (if b then "w:1" else "w:0") (compile r)
  | .inp :: r => .getInput fun i => .log ("i:" ++ Hex.showHex i) (compile r)
  | .ctx :: r => .context fun cur cal => .log ("x:" ++ short cur ++ "/" ++ short cal) (compile r)
  | .bi :: r => .blockInfo fun h t => .log ("b:" ++ toString h ++ "/" ++ toString t) (compile r)
  | .call prop a m args :: r => .call a m args fun res =>
      match res with
      | .ok v => .log ("c:ok:" ++ Hex.showHex v) (compile r)
      | .ctxErr => .log "c:ctx" (compile r)
      | _ => if prop then .fail else .log "c:err" (compile r)

def runHandler : Handler := fun args =>
  match parseInstrs ((textOf args).splitOn " " |>.filter (· ≠ "")) with
  | some is => compile is
  | none => .fail

/-- `rec`: args = "<n> <prog>": n nested calls of A.rec, then the program. -/
def recHandler : Handler := fun args =>
  match (textOf args).splitOn " " |>.filter (· ≠ "") with
  | n :: rest =>
    match n.toNat? with
    | none => .fail
    | some 0 => runHandler (ascii (" ".intercalate rest))
    | some (k + 1) => .call addrA (ascii "rec") (ascii (" ".intercalate (toString k :: rest))) fun res =>
        match res with
        | .ok v => .ret v
        | .ctxErr => .log "c:ctx" (.ret [])
        | _ => .fail
  | [] => .fail

def registry : Registry := fun a =>
  if a = addrA then some [(ascii "run", runHandler), (ascii "rec", recHandler), (ascii "onlyA", runHandler)]
  else if a = addrB then some [(ascii "run", runHandler), (ascii "onlyB", runHandler)]
  else none

def leafHash (d : Bytes) : Hash := Sha256.sha256 (0 :: d)

structure St where
  base : KV := []
  height : Nat := 0                    -- committed height (genesis = 0)
  time : Nat := 0                      -- committed block time, relative to the genesis timestamp
  last : Option (KV × Nat × List Hash) := none   -- write set, time, cross hashes of the last executed block, if any
  kept : Option (KV × Nat × List Hash) := none   -- the same for a held candidate block

def parseSigners (s : String) : Option (List Addr) :=
  if s = "-" then some [] else (s.splitOn ",").mapM addrNamed

partial def parseTxs : List String → Option (List Tx)
  | [] => some []
  | "tx" :: sg :: t :: "[" :: r => do
    let (a, m) ← target t
    let (inside, rest) ← splitBracket 0 [] r
    pure ({ signers := ← parseSigners sg, code := encodeParam a m (ascii (" ".intercalate inside)), chainOk := true }
          :: (← parseTxs rest))
  | "txchain" :: sg :: t :: "[" :: r => do
    let (a, m) ← target t
    let (inside, rest) ← splitBracket 0 [] r
    pure ({ signers := ← parseSigners sg, code := encodeParam a m (ascii (" ".intercalate inside)), chainOk := false }
          :: (← parseTxs rest))
  | "txraw" :: sg :: h :: r => do
    pure ({ signers := ← parseSigners sg, code := ← Hex.ofHex h, chainOk := true } :: (← parseTxs r))
  | _ => none

def join (l : List String) : String := if l.isEmpty then "-" else ",".intercalate l

def showTx (r : TxResult) : String :=
  (if r.ok then "ok" else "fail") ++ "/" ++ join (r.notify.map fun n => short n.contract ++ "@" ++ Hex.showHex n.data)
    ++ "/" ++ join r.log

def showResult (res : BlockResult) : String :=
  " ".intercalate (res.notify.map showTx)
    ++ " | x=" ++ join (res.crossHashes.map Hex.toHex)
    ++ " w=" ++ join (res.writeSet.map fun kv => Hex.showHex kv.1 ++ ":" ++ Hex.showHex kv.2)
    ++ " h=" ++ Hex.toHex (changeHash Sha256.sha256 res.writeSet)
    ++ " r=" ++ Hex.toHex (crossRoot Sha256.sha256 res.crossHashes)

def step (s : St) (toks : List String) : St × String :=
  match toks with
  | "blk" :: dt :: rest =>
    match parseTxs rest, dt.toNat? with
    | some txs, some d =>
      let t := s.time + 1 + d
      match execBlockP leafHash registry { base := s.base, height := s.height + 1, time := t } txs with
      | some res => ({ s with last := some (res.writeSet, t, res.crossHashes) }, showResult res)
      | none => ({ s with last := none }, "panic")     -- the panic leaves ExecuteBlock: no result, nothing to commit
    | _, _ => (s, "bad-op")
  | "nblk" :: dt :: rest =>
    -- a block of real native-contract transactions: evaluated on the implementation only (k identical executions);
    -- for the scripted contract's keys it is an empty block
    match dt.toNat? with
    | some d => ({ s with last := some ([], s.time + 1 + d, []) }, "same n=" ++ toString rest.length)
    | none => (s, "bad-op")
  | ["commit"] =>
    match s.last with
    | some (ws, t, _) => ({ base := ws.persistInto s.base, height := s.height + 1, time := t, last := none, kept := none }, "ok")
    | none => (s, "bad-op")
  | ["keep"] =>
    match s.last with
    | some l => ({ s with kept := some l }, "ok")
    | none => (s, "bad-op")
  | ["submitkept"] =>
    -- SubmitBlock(block, held result): the write set is persisted, the cross hashes and their root are stored
    match s.kept with
    | some (ws, t, xs) =>
      ({ base := ws.persistInto s.base, height := s.height + 1, time := t, last := none, kept := none },
       "ok x=" ++ join (xs.map Hex.toHex) ++ " r=" ++ Hex.toHex (crossRoot Sha256.sha256 xs))
    | none => (s, "bad-op")
  | _ => (s, "bad-op")

end AtomicDrv

namespace WitnessDrv
open AtomicDrv

def addrT : Addr := addrOf 0xd4

def relayHandler : Handler := fun args =>
  match decodeParam args with
  | some (a, m, ar) => .call a m ar fun r => match r with | .ok v => .ret v | _ => .fail
  | none => .fail

def field (key tok : String) : Option String :=
  if tok.startsWith (key ++ "=") then some (tok.drop (key.length + 1)).toString else none

def hexList (s : String) : Option (List Bytes) :=
  if s = "-" then some [] else (s.splitOn ",").mapM Hex.ofHex

/-- The guard of a method as regenerated from the Go source. -/
def generatedGuard (contract method : String) : Option Guard :=
  match Poly.Generated.Guards.table.find? fun e => e.1 == (contract, method) with
  | some e => Guard.ofString e.2
  | none => none

def viaAddrs (s : String) : Option (List Addr) :=
  if s = "-" then some [] else (s.splitOn ",").mapM addrNamed

def relayCode : List Addr → Bytes → Bytes
  | [], code => code
  | a :: r, code => encodeParam a (ascii "relay") (relayCode r code)

/-- `seq` of the scripted contracts: two nested calls in one transaction, errors propagate. -/
def seqHandler : Handler := fun args =>
  match nextVarBytes args with
  | none => .fail
  | some (c1, rest) =>
    match nextVarBytes rest with
    | none => .fail
    | some (c2, _) =>
      match decodeParam c1, decodeParam c2 with
      | some (a1, m1, ar1), some (a2, m2, ar2) =>
        .call a1 m1 ar1 fun r1 => match r1 with
          | .ok _ => .call a2 m2 ar2 fun r2 => match r2 with | .ok v => .ret v | _ => .fail
          | _ => .fail
      | _, _ => .fail

/-- One signature entry of the op language: keys / m / signatures, as characters (a key is named by a character, a
signature by the character of the key that made it; `x` = undecodable bytes, `w` = signature of another message). -/
def parseEntry (s : String) : Option (Poly.Model.Sig.Entry Char Char) :=
  match s.splitOn "/" with
  | [ks, m, sg] => do
    let mm ← m.toNat?
    pure { keys := ks.toList, m := mm, sigs := if sg = "-" then [] else sg.toList }
  | _ => none

/-- The outcome of a call given its signer set (shared by call lines and signature-entry lines). -/
def outcome (kind contract method via op ow du pr po : String) (signers : List Addr) : Option String := do
  let g ← generatedGuard contract method
  let via ← (field "via" via) >>= viaAddrs
  let operator ← (field "operator" op) >>= Hex.ofHex
  let owner ← (field "owneraddr" ow) >>= Hex.ofHex
  let due ← field "due" du
  let post ← field "post" po
  let pre ← field "pre" pr
  let required := match g with
    | .operator => operator
    | .operatorOrDue => operator
    | .ownerParam => owner
    | .none => []
  let bodyOf (p : String) : Prog := if p = "ok" then .put [1] [1] (.ret [1]) else if p = "panic" then .log "panic" .fail else .fail
  -- a `seq` line gives the outcome of the first body and of both: <first>/<both>
  let (post1, post2) := match post.splitOn "/" with
    | [a, b] => (a, b)
    | _ => (post, post)
  -- validation some handlers perform before asking for the witness fails for every signer alike
  let target (p : String) : Handler := fun _ => if pre = "ok" then guarded g required (due = "1") (bodyOf p) else .fail
  let reg : Registry := fun a =>
    if a = addrT then some [(ascii "m", target post1), (ascii "m2", target post2)]
    else if a = addrA ∨ a = addrB then some [(ascii "relay", relayHandler), (ascii "seq", seqHandler)]
    else none
  -- the transaction's payer field is not a witness: the model does not look at it
  let direct := encodeParam addrT (ascii "m") []
  let code :=
    if kind = "seq" then
      encodeParam addrA (ascii "seq") (varBytes direct ++ varBytes (relayCode [addrB] (encodeParam addrT (ascii "m2") [])))
    else relayCode via direct
  let tx : Tx := { signers := signers, code := code, chainOk := true }
  let res := (execTx leafHash reg { base := [], height := 1, time := 1 } { overlay := [], cache := [] } tx).2
  if res.ok then pure "ok"
  else if res.log.contains "panic" then pure "panic"
  else if res.log.contains "reject:witness" then
    -- in a `seq` the first call may legitimately have written before the second one is refused
    if kind = "seq" then pure "reject:witness"
    else pure ("reject:witness w=" ++ toString (res.effs.filter (fun e => match e with | .write _ _ => true | _ => false)).length)
  else pure "reject:other"

def step (_ : Unit) (toks : List String) : Unit × String :=
  match toks with
  | ["height", _] => ((), "ok")
  | ["world", _] => ((), "ok")
  | "sigtx" :: contract :: method :: _ :: _ :: es :: "|" :: op :: ow :: ea :: du :: pr :: po :: [] =>
    -- real signature entries: the signer set is what the model of checkTransactionSignatures (Poly.Model.Sig) attributes
    let r : Option String := do
      let entries ← (field "entries" es) >>= fun e => (e.splitOn "+").mapM parseEntry
      let addrs ← (field "eaddrs" ea) >>= hexList
      if addrs.length ≠ entries.length then none
      let table := entries.zip addrs
      let lookup (keys : List Char) (m : Nat) : Addr :=
        match table.find? fun p => p.1.keys == keys && p.1.m == m with
        | some p => p.2
        | none => []
      let wf : Char → Bool := fun c => c != 'x'
      let verify : Char → Char → Bool := fun k c => c == k && c != 'w' && c != 'x'
      match Poly.Model.Sig.checkTransactionSignatures wf verify (fun k => lookup [k] 1) lookup entries with
      | .error _ => pure "sigerr"
      | .ok as => outcome "try" contract method "via=-" op ow du pr po (Poly.Model.Sig.dedup as)
    ((), r.getD "bad-op")
  | kind :: contract :: method :: _ :: via :: _ :: _ :: _ :: "|" :: op :: ow :: sg :: du :: pr :: po :: [] =>
    let r : Option String := do
      let signers ← (field "signeraddrs" sg) >>= hexList
      outcome kind contract method via op ow du pr po signers
    ((), r.getD "bad-op")
  | _ => ((), "bad-op")

end WitnessDrv

def main (args : List String) : IO Unit :=
  match args with
  | ["atomic"] => Proto.run ({} : AtomicDrv.St) AtomicDrv.step
  | ["determ"] => Proto.run ({} : AtomicDrv.St) AtomicDrv.step
  | ["witness"] => Proto.run () WitnessDrv.step
  | _ => IO.eprintln "usage: drv_native <family>"
