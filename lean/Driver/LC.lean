import Poly.Util.Proto
import Poly.Model.LCOnt
import Poly.Model.LCNeo
import Poly.Model.LCTmDrv
import Poly.Model.LCPosaDrv
/- Driver for the light-client families. `drv_lc <family>` reads op lines on stdin. -/
open Poly

namespace OntDrv
open Poly.Model.LCOnt

/-- signature spec of the line protocol: g<i> genuine by key i, w<i> by key i over another message, x garbage -/
structure Sig where
  kind : Char
  key : Nat

def des (s : Sig) : Bool := s.kind != 'x'
/-- ideal signature relation: a genuine signature verifies under exactly its own key -/
def ver (k : Nat) (s : Sig) : Bool := s.kind == 'g' && s.key == k

/-- a signer reference may end in a letter naming the wire encoding of the key (a, u, v, t): the key is the same -/
def keyIdx (s : String) : Option Nat :=
  (String.ofList (s.toList.filter Char.isDigit)).toNat?

def parseIdx (s : String) : Option (List Nat) :=
  if s == "-" then some [] else (s.splitOn ",").mapM keyIdx

def parseSig (s : String) : Option Sig :=
  if s == "x" then some ⟨'x', 0⟩
  else match s.toList with
    | c :: rest => if c == 'g' || c == 'w' then (String.ofList rest).toNat?.map (⟨c, ·⟩) else none
    | [] => none

def parseSigs (s : String) : Option (List Sig) :=
  if s == "-" then some [] else (s.splitOn ",").mapM parseSig

def parseCfg (s : String) : Option (Cfg Nat) :=
  if s == "-" then some .none else if s == "!" then some .bad else (parseIdx s).map .peers

def showRej : Rej → String
  | .nokeyheight => "nokeyheight" | .nopeers => "nopeers" | .few => "few" | .badkey => "badkey"
  | .sig => "sig" | .payload => "payload" | .initialized => "initialized"

def showOut : Out → String
  | .ok => "ok" | .skip => "skip" | .verified => "verified" | .storedVerified => "stored-verified"
  | .reject r => "reject:" ++ showRej r

def joinNats (l : List Nat) : String :=
  if l.isEmpty then "-" else ",".intercalate (l.map toString)

def sortU (l : List Nat) : List Nat := (l.mergeSort (· ≤ ·)).eraseDups

def showState (st : St Nat) : String :=
  let khs := sortU st.keyHeights
  let ps := khs.map fun k =>
    match peersAt st.peers k with
    | some p => s!" p{k}={joinNats (sortU p)}"
    | none => s!" p{k}=?"
  s!"kh={joinNats st.keyHeights}{String.join ps} hdrs={joinNats (sortU st.hdrs)} msgs={joinNats (sortU st.msgs)}"

def step (st : St Nat) (toks : List String) : St Nat × String :=
  match toks with
  | ["genesis", h, cfg] =>
    match h.toNat?, parseCfg cfg with
    | some h, some cfg => let (s, o) := genesis st h cfg; (s, showOut o)
    | _, _ => (st, "bad-op")
  | ["hdr", h, _nonce, cfg, bks, sigs] =>
    match h.toNat?, parseCfg cfg, parseIdx bks, parseSigs sigs with
    | some h, some cfg, some bks, some sigs => let (s, o) := syncHeader des ver st h cfg bks sigs; (s, showOut o)
    | _, _, _, _ => (st, "bad-op")
  | "hbatch" :: rest =>
    let parse (tok : String) : Option (Nat × Cfg Nat × List Nat × List Sig) :=
      match tok.splitOn "/" with
      | [h, _n, cfg, bks, sigs] => do
        let h ← h.toNat?; let cfg ← parseCfg cfg; let bks ← parseIdx bks; let sigs ← parseSigs sigs
        pure (h, cfg, bks, sigs)
      | _ => none
    match (rest.filter (· != "|")).mapM parse with
    | none => (st, "bad-op")
    | some hs =>
      -- the loop of SyncBlockHeader: stop at the first error, earlier effects stay in the store
      let rec go (st : St Nat) : List (Nat × Cfg Nat × List Nat × List Sig) → St Nat × String
        | [] => (st, "ok")
        | (h, cfg, bks, sigs) :: tl =>
          let (s, o) := syncHeader des ver st h cfg bks sigs
          match o with
          | .reject _ => (s, showOut o)
          | _ => go s tl
      let (s, o) := go st hs
      let stored := sortU ((hs.map (·.1)).filter (fun h => s.hdrs.contains h))
      (s, s!"{o} stored={joinNats stored}")
  | ["msg", h, bks, sigs] =>
    match h.toNat?, parseIdx bks, parseSigs sigs with
    | some h, some bks, some sigs => let (s, o) := syncMsg des ver st h bks sigs; (s, showOut o)
    | _, _, _ => (st, "bad-op")
  | ["dep", h, bks, sigs] =>
    match h.toNat?, parseIdx bks, parseSigs sigs with
    | some h, some bks, some sigs => let (s, o) := depositMsg des ver st h bks sigs; (s, showOut o)
    | _, _, _ => (st, "bad-op")
  | ["state"] => (st, showState st)
  | _ => (st, "bad-op")

end OntDrv

namespace NeoDrv
open Poly.Model.LCNeo
open OntDrv (Sig ver parseSigs)

/-- consensus descriptor `m:k1.k2...` (script = m-of-n over those keys in that order) -/
def parseDesc (s : String) : Option (Nat × List Nat) :=
  match s.splitOn ":" with
  | [m, ks] => do
    let m ← m.toNat?
    let ks ← if ks == "" then some [] else (ks.splitOn ".").mapM (·.toNat?)
    pure (m, ks)
  | _ => none

def wokOf (desc sigs : String) : Option Bool := do
  let (m, ks) ← parseDesc desc
  let sg ← parseSigs sigs
  pure (witnessCheck ver m ks sg)

def parseHdr (tok : String) : Option (Hdr String) :=
  match tok.splitOn "/" with
  | [i, next, w, sigs] => do
    let i ← i.toNat?
    let wok ← wokOf w sigs
    pure ⟨i, next, w, wok⟩
  | [i, next, w, sigs, "p"] => do   -- hash-linked to the preceding header of the batch: irrelevant to the decision
    let i ← i.toNat?
    let wok ← wokOf w sigs
    pure ⟨i, next, w, wok⟩
  | _ => none

def showRej : Rej → String
  | .noconsensus => "noconsensus" | .scripthash => "scripthash" | .witness => "witness"
  | .noscript => "noscript" | .contract => "contract" | .nowitness => "nowitness" | .initialized => "initialized"

def showOut : Out → String
  | .ok => "ok" | .reject r => "reject:" ++ showRej r

def showTracked : Option (Tracked String) → String
  | none => "none"
  | some t => s!"h={t.height} c={t.next}"

structure St where
  tracked : Option (Tracked String) := none
  svs : List Nat := []

def descOf (m : Nat) (ks : List Nat) : String := s!"{m}:{".".intercalate (ks.map toString)}"

/-- `sc.CreateMultiSigContract(m, keys)`: refuses unless 1 ≤ m ≤ n ≤ 1024, sorts the keys (pool indices are
numbered in the library's key order), script hash = descriptor. -/
def contractOf (m : Nat) (ks : List Nat) : Option String :=
  if 1 ≤ m ∧ m ≤ ks.length ∧ ks.length ≤ 1024 then some (descOf m (ks.mergeSort (· ≤ ·))) else none

/-- a trailing `r<k>` token selects another state root for the same index: irrelevant to the decision -/
def dropRoot (toks : List String) : List String :=
  match toks with
  | [a, b, c, d, r] => if (a == "nmsg" || a == "nmsg3") && r.startsWith "r" then [a, b, c, d] else toks
  | _ => toks

def step (thr : Int → Int) (st : St) (toks0 : List String) : St × String :=
  let toks := dropRoot toks0
  match toks with
  | ["ngen", i, cons] =>
    match i.toNat?, parseDesc cons with
    | some i, some _ => let (s, o) := syncGenesis st.tracked i cons; ({ st with tracked := s }, showOut o ++ " " ++ showTracked s)
    | _, _ => (st, "bad-op")
  | "nhdr" :: rest =>
    match (rest.filter (· != "|")).mapM parseHdr with
    | some hs => let (s, o) := syncBlockHeader st.tracked hs; ({ st with tracked := s }, showOut o ++ " " ++ showTracked s)
    | none => (st, "bad-op")
  | ["nmsg", _i, w, sigs] =>
    if w == "-" then (st, showOut (verifyMsgNeo2 st.tracked none false))
    else match wokOf w sigs with
      | some wok => (st, showOut (verifyMsgNeo2 st.tracked (some w) wok))
      | none => (st, "bad-op")
  | ["nsv", ks] =>
    match OntDrv.parseIdx ks with
    | some ks => ({ st with svs := ks }, "ok")
    | none => (st, "bad-op")
  | ["nmsg3", _i, w, sigs] =>
    if w == "-" then (st, showOut (verifyMsgNeo3 thr contractOf st.svs none false))
    else match wokOf w sigs with
      | some wok => (st, showOut (verifyMsgNeo3 thr contractOf st.svs (some w) wok))
      | none => (st, "bad-op")
  | ["nstate"] => (st, showTracked st.tracked)
  | _ => (st, "bad-op")

end NeoDrv

def main (args : List String) : IO Unit :=
  match args with
  | ["ontmsg"] => Proto.run Poly.Model.LCOnt.St.empty OntDrv.step
  | ["onthdr"] => Proto.run Poly.Model.LCOnt.St.empty OntDrv.step
  | ["neomsg"] | ["neohdr"] | ["neo3msg"] | ["neo3hdr"] =>
    Proto.run ({} : NeoDrv.St) (NeoDrv.step Poly.Generated.Thresholds.neo3_verifyWitness_m0)
  | ["neo3lmsg"] | ["neo3lhdr"] =>
    Proto.run ({} : NeoDrv.St) (NeoDrv.step Poly.Generated.Thresholds.neo3legacy_verifyWitness_m0)
  | [fam] =>
    if fam.startsWith "tm" then Poly.Model.LCTmDrv.main fam
    else if fam.startsWith "posa" || fam.startsWith "bor" then Poly.Model.LCPosaDrv.main fam
    else IO.eprintln "usage: drv_lc <family>"
  | _ => IO.eprintln "usage: drv_lc <family>"
