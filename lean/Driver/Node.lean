import Poly.Util.Proto
import Poly.Model.VBFT
import Poly.Model.Sig
/- Driver for the node-layer families. `drv_node <family>` reads op lines on stdin.

   family vbftsel (C40):
   part <seed> <k> <table>                                   -> <peer> | panic
   peers <seed> <N> <C> <start> <end> <proposers> <table>    -> <list> | panic
   build <blkNum> <N> <C> <seed> <table> <block fields...>   -> ok p=<list> e=<list> c=<list> | err:<class> | panic
   genesis <height> <idx:id,...>                             -> N=<n> C=<c> table=<list>
   (lists are comma separated, `-` = empty; seed = 128 hex digits)
-/
open Poly

namespace VbftSelDrv
open Poly.Model.VBFT

def splitList (s : String) : List String := if s == "-" then [] else s.splitOn ","

def natList (s : String) : List Nat := (splitList s).map Proto.natOf

def showList (l : List Nat) : String := if l.isEmpty then "-" else ",".intercalate (l.map toString)

def seedOf (s : String) : Option Seed :=
  match Hex.ofHex s with
  | some bs => if h : bs.length = 64 then some ⟨bs.toArray, by simpa using h⟩ else none
  | none => none

/-- FNV-1a, 64 bit (hash/fnv New64a). -/
def fnv1a64 (bs : List UInt8) : UInt64 :=
  bs.foldl (fun h b => (h ^^^ b.toUInt64) * 1099511628211) 14695981039346656037

/-- `shuffle_hash(height, id, idx)`: FNV-1a over `json.Marshal(struct{height, node_id, index})`
    (ids in the op lines are plain alphanumeric, so no JSON escaping is involved). -/
def shuffleHash (height : Nat) (id : String) (idx : Nat) : Nat :=
  let js := "{\"height\":" ++ toString height ++ ",\"node_id\":\"" ++ id ++ "\",\"index\":" ++ toString idx ++ "}"
  (fnv1a64 js.toUTF8.toList).toNat

def parsePeers (s : String) : List Peer :=
  (splitList s).map fun t =>
    match t.splitOn ":" with
    | [i, id] => ⟨Proto.natOf i, id⟩
    | _ => ⟨0, ""⟩

def step (_ : Unit) (toks : List String) : Unit × String :=
  match toks with
  | ["part", seed, k, table] =>
    match seedOf seed with
    | none => ((), "bad-op")
    | some vrf =>
      match calcParticipant vrf (natList table) (Proto.natOf k) with
      | none => ((), "panic")
      | some p => ((), toString p)
  | ["peers", seed, n, c, start, end_, proposers, table] =>
    match seedOf seed with
    | none => ((), "bad-op")
    | some vrf =>
      match calcParticipantPeers vrf (natList table) (Proto.natOf n) (Proto.natOf c) (natList proposers)
          (Proto.natOf start) (Proto.natOf end_) with
      | none => ((), "panic")
      | some l => ((), showList l)
  | "build" :: blkNum :: n :: c :: seed :: table :: _ =>
    match seedOf seed with
    | none => ((), "bad-op")
    | some vrf =>
      match buildParticipantConfig (Proto.natOf blkNum) vrf (natList table) (Proto.natOf n) (Proto.natOf c) with
      | .panic => ((), "panic")
      | .err cls => ((), "err:" ++ cls)
      | .ok cfg => ((), s!"ok p={showList cfg.proposers} e={showList cfg.endorsers} c={showList cfg.committers}")
  | ["genesis", height, peers] =>
    let ps := parsePeers peers
    let cc := genesisChainConfig (shuffleHash (Proto.natOf height)) ps
    ((), s!"N={cc.N} C={cc.C} table={showList cc.posTable}")
  | _ => ((), "bad-op")

end VbftSelDrv

namespace SigsDrv
open Poly.Model.Sig

/- family sigs (C39):
   tx <nonce> <entry> ...   -> ok signers=<sorted addresses> | reject
   vms <data> <entry>       -> ok | reject:not-enough | reject:invalid-sig | reject:multi-failed
   entry = M;pks;sigs;ADDR;WF;V — the model sees the number of keys and signatures, the address, the "decodes" bits
   and the verification matrix (all computed by the harness with the node's own libraries). -/

structure PEntry where
  m : Nat
  kn : Nat
  sn : Nat
  addr : String
  wf : List Bool
  v : List (List Bool)

def count (s : String) : Nat := if s == "-" then 0 else (s.splitOn ",").length

def bits (s : String) : List Bool := if s == "-" then [] else s.toList.map (· == '1')

def parseEntry (t : String) : Option PEntry :=
  match t.splitOn ";" with
  | [m, pks, sigs, addr, wf, v] =>
    some { m := Proto.natOf m, kn := count pks, sn := count sigs, addr := addr, wf := bits wf,
           v := if v == "-" then [] else (v.splitOn "/").map bits }
  | _ => none

/-- keys and signatures of the transaction are (entry number, position) pairs -/
abbrev Key := Nat × Nat
abbrev Sg := Nat × Nat

def wfOf (es : Array PEntry) (s : Sg) : Bool :=
  match es[s.1]? with
  | some e => e.wf[s.2]?.getD false
  | none => false

def verifyOf (es : Array PEntry) (k : Key) (s : Sg) : Bool :=
  k.1 == s.1 &&
    match es[s.1]? with
    | some e => ((e.v[s.2]?.getD [])[k.2]?).getD false
    | none => false

def addrOf (es : Array PEntry) (i : Nat) : String :=
  match es[i]? with
  | some e => e.addr
  | none => "-"

def toEntry (i : Nat) (e : PEntry) : Entry Key Sg :=
  { keys := (List.range e.kn).map fun j => (i, j), m := e.m, sigs := (List.range e.sn).map fun j => (i, j) }

def insertSorted (a : String) : List String → List String
  | [] => [a]
  | b :: r => if a ≤ b then a :: b :: r else b :: insertSorted a r

def sortStrings (l : List String) : List String := l.foldr insertSorted []

def step (_ : Unit) (toks : List String) : Unit × String :=
  match toks with
  | "tx" :: _nonce :: entries =>
    match entries.mapM parseEntry with
    | none => ((), "bad-op")
    | some pes =>
      let arr := pes.toArray
      let es := pes.zipIdx.map fun (e, i) => toEntry i e
      match checkTransactionSignatures (wfOf arr) (verifyOf arr) (fun k => addrOf arr k.1)
          (fun ks _ => match ks with | k :: _ => addrOf arr k.1 | [] => "-") es with
      | .error _ => ((), "reject")
      | .ok addrs =>
        let l := sortStrings (dedup addrs)
        ((), "ok signers=" ++ (if l.isEmpty then "-" else ",".intercalate l))
  | ["vms", _data, entry] =>
    match parseEntry entry with
    | none => ((), "bad-op")
    | some pe =>
      let arr := #[pe]
      let e := toEntry 0 pe
      match verifyMultiSignature (wfOf arr) (verifyOf arr) e.keys e.m e.sigs with
      | .ok _ => ((), "ok")
      | .error .notEnough => ((), "reject:not-enough")
      | .error .invalidSigData => ((), "reject:invalid-sig")
      | .error .multiFailed => ((), "reject:multi-failed")
      | .error _ => ((), "reject:other")
  | _ => ((), "bad-op")

end SigsDrv

def main (args : List String) : IO Unit :=
  match args with
  | ["vbftsel"] => Proto.run () VbftSelDrv.step
  | ["sigs"] => Proto.run () SigsDrv.step
  | _ => IO.eprintln "usage: drv_node <family>"
