import Poly.Util.Proto
import Poly.Model.VBFT
import Poly.Model.Sig
import Poly.Model.VBFTCount
import Poly.Model.SigAddr
/- Driver for the node-layer families. `drv_node <family>` reads op lines on stdin.

   family vbftsel (C40):
   part <seed> <k> <table>                                   -> <peer> | panic
   peers <seed> <N> <C> <start> <end> <proposers> <table>    -> <list> | panic
   build <blkNum> <N> <C> <seed> <table> <block fields...>   -> ok p=<list> e=<list> c=<list> | err:<class> | panic
   genesis <height> <idx:id,...>                             -> N=<n> C=<c> table=<list>
   seed <height> <proposer> <root> <vrf> <seed>              -> <seed>   (getParticipantSelectionSeed of that block)
   peerscfg <view> <idx:pubkey:status,...>                   -> <idx:pubkey,...> sorted by index (GetPeersConfig as a set)
   (lists are comma separated, `-` = empty; seed = 128 hex digits)
-/
open Poly

namespace VbftSelDrv
open Poly.Model.VBFT

def splitList (s : String) : List String := if s == "-" then [] else s.splitOn ","

def natList (s : String) : List Nat := (splitList s).map Proto.natOf

def showList (l : List Nat) : String := if l.isEmpty then "-" else ",".intercalate (l.map toString)

def seedOf (s : String) : Option Seed :=
  match Hex.ofHex s with
  | some bs => if h : bs.length = 64 then some ⟨bs.toArray, by simpa using h⟩ else none
  | none => none

/-- FNV-1a, 64 bit (hash/fnv New64a). -/
def fnv1a64 (bs : List UInt8) : UInt64 :=
  bs.foldl (fun h b => (h ^^^ b.toUInt64) * 1099511628211) 14695981039346656037

/-- `shuffle_hash(height, id, idx)`: FNV-1a over `json.Marshal(struct{height, node_id, index})`
    (ids in the op lines are plain alphanumeric, so no JSON escaping is involved). -/
def shuffleHash (height : Nat) (id : String) (idx : Nat) : Nat :=
  let js := "{\"height\":" ++ toString height ++ ",\"node_id\":\"" ++ id ++ "\",\"index\":" ++ toString idx ++ "}"
  (fnv1a64 js.toUTF8.toList).toNat

def parsePeers (s : String) : List Peer :=
  (splitList s).map fun t =>
    match t.splitOn ":" with
    | [i, id] => ⟨Proto.natOf i, id⟩
    | _ => ⟨0, ""⟩

def step (_ : Unit) (toks : List String) : Unit × String :=
  match toks with
  | ["part", seed, k, table] =>
    match seedOf seed with
    | none => ((), "bad-op")
    | some vrf =>
      match calcParticipant vrf (natList table) (Proto.natOf k) with
      | none => ((), "panic")
      | some p => ((), toString p)
  | ["peers", seed, n, c, start, end_, proposers, table] =>
    match seedOf seed with
    | none => ((), "bad-op")
    | some vrf =>
      match calcParticipantPeers vrf (natList table) (Proto.natOf n) (Proto.natOf c) (natList proposers)
          (Proto.natOf start) (Proto.natOf end_) with
      | none => ((), "panic")
      | some l => ((), showList l)
  | "build" :: blkNum :: n :: c :: seed :: table :: _ =>
    match seedOf seed with
    | none => ((), "bad-op")
    | some vrf =>
      match buildParticipantConfig (Proto.natOf blkNum) vrf (natList table) (Proto.natOf n) (Proto.natOf c) with
      | .panic => ((), "panic")
      | .err cls => ((), "err:" ++ cls)
      | .ok cfg => ((), s!"ok p={showList cfg.proposers} e={showList cfg.endorsers} c={showList cfg.committers}")
  | ["seed", _height, _proposer, _root, _vrf, seed] =>
    -- the seed of a block is an input of the model (double SHA-512 of the block's own fields, recomputed independently
    -- by the harness): the implementation must return exactly it
    ((), seed)
  | ["peerscfg", _view, pool] =>
    let items : List PoolItem := (splitList pool).map fun t =>
      match t.splitOn ":" with
      | [i, pk, st] => ⟨Proto.natOf i, pk, Proto.natOf st⟩
      | _ => ⟨0, "", 9⟩
    let ps := peersConfig items
    let sorted := ps.foldr (fun (a : Peer) acc =>
      let rec ins (a : Peer) : List Peer → List Peer
        | [] => [a]
        | b :: r => if a.index < b.index || (a.index == b.index && a.id ≤ b.id) then a :: b :: r else b :: ins a r
      ins a acc) []
    ((), if sorted.isEmpty then "-" else ",".intercalate (sorted.map fun p => s!"{p.index}:{p.id}"))
  | ["genesis", height, peers] =>
    let ps := parsePeers peers
    let cc := genesisChainConfig (shuffleHash (Proto.natOf height)) ps
    ((), s!"N={cc.N} C={cc.C} table={showList cc.posTable}")
  | _ => ((), "bad-op")

end VbftSelDrv

namespace SigsDrv
open Poly.Model.Sig

/- family sigs (C39):
   tx <nonce> <entry> ...   -> ok signers=<sorted addresses> | reject
   vms <data> <entry>       -> ok | reject:not-enough | reject:invalid-sig | reject:multi-failed
   prog <m> <ser:type:curve:x:y> ...   -> ok <program bytes> empty=0 | err empty=1   (EncodeMultiPubKeyProgramInto /
                                          AddressFromMultiPubKeys answering the empty address)
   bk <ser:type:curve:x:y> ...         -> empty=<0|1>                               (AddressFromBookkeepers)
   entry = M;pks;sigs;ADDR;WF;V — the model sees the number of keys and signatures, the address, the "decodes" bits
   and the verification matrix (all computed by the harness with the node's own libraries). -/

structure PEntry where
  m : Nat
  kn : Nat
  sn : Nat
  addr : String
  wf : List Bool
  v : List (List Bool)

def count (s : String) : Nat := if s == "-" then 0 else (s.splitOn ",").length

def bits (s : String) : List Bool := if s == "-" then [] else s.toList.map (· == '1')

def parseEntry (t : String) : Option PEntry :=
  match t.splitOn ";" with
  | [m, pks, sigs, addr, wf, v] =>
    some { m := Proto.natOf m, kn := count pks, sn := count sigs, addr := addr, wf := bits wf,
           v := if v == "-" then [] else (v.splitOn "/").map bits }
  | _ => none

/-- keys and signatures of the transaction are (entry number, position) pairs -/
abbrev Key := Nat × Nat
abbrev Sg := Nat × Nat

def wfOf (es : Array PEntry) (s : Sg) : Bool :=
  match es[s.1]? with
  | some e => e.wf[s.2]?.getD false
  | none => false

def verifyOf (es : Array PEntry) (k : Key) (s : Sg) : Bool :=
  k.1 == s.1 &&
    match es[s.1]? with
    | some e => ((e.v[s.2]?.getD [])[k.2]?).getD false
    | none => false

def addrOf (es : Array PEntry) (i : Nat) : String :=
  match es[i]? with
  | some e => e.addr
  | none => "-"

def toEntry (i : Nat) (e : PEntry) : Entry Key Sg :=
  { keys := (List.range e.kn).map fun j => (i, j), m := e.m, sigs := (List.range e.sn).map fun j => (i, j) }

def insertSorted (a : String) : List String → List String
  | [] => [a]
  | b :: r => if a ≤ b then a :: b :: r else b :: insertSorted a r

def sortStrings (l : List String) : List String := l.foldr insertSorted []

def step (_ : Unit) (toks : List String) : Unit × String :=
  match toks with
  | "tx" :: _nonce :: entries =>
    match entries.mapM parseEntry with
    | none => ((), "bad-op")
    | some pes =>
      let arr := pes.toArray
      let es := pes.zipIdx.map fun (e, i) => toEntry i e
      match checkTransactionSignatures (wfOf arr) (verifyOf arr) (fun k => addrOf arr k.1)
          (fun ks _ => match ks with | k :: _ => addrOf arr k.1 | [] => "-") es with
      | .error _ => ((), "reject")
      | .ok addrs =>
        let l := sortStrings (dedup addrs)
        ((), "ok signers=" ++ (if l.isEmpty then "-" else ",".intercalate l))
  | "prog" :: m :: keys =>
    -- key token = ser:type:curve:x:y ; the model sorts by (type, curve, x, y) and encodes the program
    let ks : List (List UInt8 × Poly.Model.SigAddr.Ord) := keys.map fun t =>
      match t.splitOn ":" with
      | [sr, ty, cv, x, y] => (Proto.bytesOf sr, (Proto.natOf ty, Proto.natOf cv, Proto.natOf x, Proto.natOf y))
      | _ => ([], (0, 0, 0, 0))
    match Poly.Model.SigAddr.encodeMulti (fun k => k.1) (fun k => k.2) ks (Proto.natOf m % 65536) with
    | some p => ((), "ok " ++ Hex.showHex p ++ " empty=0")
    | none => ((), "err empty=1")
  | "bk" :: keys =>
    let n := keys.length
    if n == 1 then ((), "empty=0")
    else
      let m := n - (n - 1) / 3
      ((), if 1 ≤ m % 65536 ∧ m % 65536 ≤ n ∧ 1 < n ∧ n ≤ 16 then "empty=0" else "empty=1")
  | ["vms", _data, entry] =>
    match parseEntry entry with
    | none => ((), "bad-op")
    | some pe =>
      let arr := #[pe]
      let e := toEntry 0 pe
      match verifyMultiSignature (wfOf arr) (verifyOf arr) e.keys e.m e.sigs with
      | .ok _ => ((), "ok")
      | .error .notEnough => ((), "reject:not-enough")
      | .error .invalidSigData => ((), "reject:invalid-sig")
      | .error .multiFailed => ((), "reject:multi-failed")
      | .error _ => ((), "reject:other")
  | _ => ((), "bad-op")

end SigsDrv

namespace VbftCntDrv
open Poly.Model.VBFTCount

/- family vbftcnt (C41): one block pool; state = candidate records per block number.
   init <self> <C> <N> <endorsers> <peers idx:id,..> <connected> <isEndorser verdicts>   -> ok
   prop <blk> <proposer> <sig>                                       -> ok | dup
   end <blk> <endorser> <proposer> <forEmpty> <sig>                  -> ok
   commit <blk> <committer> <proposer> <hash> <forEmpty> <committerSig> <e:sig,..>   -> ok | dup
   dump <blk>                    -> esigs=<e>:<p>/<sig>/<0|1>+...;... props=<p>/<sig>,.. commits=<committer>/<p>,..
   edone <blk> <C>               -> done=<0|1>
   edcheck <blk> <C> <p> <e>     -> possible | impossible    (is (p, e) the answer of endorseDone for some map order?)
   cdone <blk> <C> <N>           -> msgs p=<p> e=<0|1> | fallback done=<0|1>
   cdcheck <blk> <C> <N> <p> <e> -> possible | impossible
   gcc <C> <N> <committer:proposer:forEmpty:e1+e2..> ...   -> p=<p> e=<0|1> | none
   seal <blk> <proposer> <forEmpty> <proposerSig>   -> first=<p>/<sig> rest=<e>/<sig>,.. (sorted by participant) -/

structure St where
  isEnd : List Nat := []
  hasKey : List Nat := []
  cands : List (Nat × Cand) := []

def getCand (s : St) (blk : Nat) : Cand :=
  match s.cands.find? (·.1 == blk) with
  | some x => x.2
  | none => {}

def hasCand (s : St) (blk : Nat) : Bool := s.cands.any (·.1 == blk)

def putCand (s : St) (blk : Nat) (c : Cand) : St :=
  if s.cands.any (·.1 == blk) then { s with cands := s.cands.map fun x => if x.1 == blk then (blk, c) else x }
  else { s with cands := s.cands ++ [(blk, c)] }

def splitList (s : String) : List String := if s == "-" then [] else s.splitOn ","
def natList (s : String) : List Nat := (splitList s).map Proto.natOf
def b01 (b : Bool) : String := if b then "1" else "0"

def insNat (a : Nat) : List Nat → List Nat
  | [] => [a]
  | b :: r => if a ≤ b then a :: b :: r else b :: insNat a r
def sortNat (l : List Nat) : List Nat := l.foldr insNat []

def insPair {α : Type} (a : Nat × α) : List (Nat × α) → List (Nat × α)
  | [] => [a]
  | b :: r => if a.1 ≤ b.1 then a :: b :: r else b :: insPair a r
def sortPairs {α : Type} (l : List (Nat × α)) : List (Nat × α) := l.foldr insPair []

def showESig (s : ESig) : String := s!"{s.proposer}/{Hex.showHex s.sig}/{b01 s.forEmpty}"

def dump (c : Cand) : String :=
  let es := (sortPairs c.esigs).map fun (e, l) => s!"{e}:" ++ "+".intercalate (l.map showESig)
  let ps := c.proposals.map fun p => s!"{p.proposer}/{Hex.showHex p.sig}"
  let cs := c.commitMsgs.map fun m => s!"{m.committer}/{m.proposer}"
  let j (l : List String) := if l.isEmpty then "-" else ";".intercalate l
  s!"esigs={j es} props={j ps} commits={j cs}"

def parseEndorsersSig (s : String) : List (Nat × Bytes) :=
  (splitList s).map fun t =>
    match t.splitOn ":" with
    | [e, sg] => (Proto.natOf e, Proto.bytesOf sg)
    | _ => (0, [])

/-! Exact reachability of answers over all map orders. Whether visiting endorser `e` after the set `S` of fully visited
   endorsers makes the function return depends only on `S` (the counters are sums over `S`), so a breadth-first walk over
   the subsets that can be visited completely without a return enumerates every answer some iteration order produces. -/

def dedupLists (l : List (List Nat)) : List (List Nat) := l.foldl (fun acc x => if acc.contains x then acc else acc ++ [x]) []

/-- (seen, empty) after visiting all endorsers of `S` without a return -/
def edState (c : Cand) (S : List Nat) : List Nat × Nat :=
  (visits c.esigs S).foldl (fun (st : List Nat × Nat) x => if x.2.forEmpty then (st.1, st.2 + 1) else (x.2.proposer :: st.1, st.2)) ([], 0)

def edReachLoop (c : Cand) (C : Nat) (keys : List Nat) : Nat → List (List Nat) → List (Nat × Bool) → List (Nat × Bool)
  | 0, _, acc => acc
  | fuel + 1, frontier, acc =>
    let step := frontier.foldl (fun (st : List (List Nat) × List (Nat × Bool)) S =>
      let (seen, em) := edState c S
      (keys.filter (fun e => !S.contains e)).foldl (fun (st : List (List Nat) × List (Nat × Bool)) e =>
        match edScan C (visits c.esigs [e]) seen em with
        | some o => (st.1, if st.2.contains o then st.2 else st.2 ++ [o])
        | none => (st.1 ++ [insNat e S], st.2)) st) ([], acc)
    edReachLoop c C keys fuel (dedupLists step.1) step.2

def edReach (c : Cand) (C : Nat) : List (Nat × Bool) :=
  if c.esigs.length < C + 1 then []
  else
    let keys := sortNat (c.esigs.map (·.1))
    edReachLoop c C keys (keys.length + 1) [[]] []

/-- (emptyCnt, seen) of the commitDone fallback after visiting all endorsers of `S` without reaching the bound -/
def cdState (c : Cand) (isEnd : Nat → Bool) (C' : Nat) (S : List Nat) : Nat × List Nat :=
  S.foldl (fun (st : Nat × List Nat) e =>
    let eSigs := (lookup c.esigs e).getD []
    let em := if !isEnd e then st.1 + (eSigs.filter (·.forEmpty)).length else st.1
    let r := cdInner C' eSigs em st.2
    (r.1, r.2.1)) (0, [])

def cdReachLoop (c : Cand) (isEnd : Nat → Bool) (C' : Nat) (keys : List Nat) : Nat → List (List Nat) → List (Nat × Bool) → List (Nat × Bool)
  | 0, _, acc => acc
  | fuel + 1, frontier, acc =>
    let step := frontier.foldl (fun (st : List (List Nat) × List (Nat × Bool)) S =>
      let (em, seen) := cdState c isEnd C' S
      (keys.filter (fun e => !S.contains e)).foldl (fun (st : List (List Nat) × List (Nat × Bool)) e =>
        match cdScan c.esigs isEnd C' [e] em seen with
        | some (p, emptyCnt) => let o := (p, decide (emptyCnt > C')); (st.1, if st.2.contains o then st.2 else st.2 ++ [o])
        | none => (st.1 ++ [insNat e S], st.2)) st) ([], acc)
    cdReachLoop c isEnd C' keys fuel (dedupLists step.1) step.2

def cdReach (c : Cand) (isEnd : Nat → Bool) (C N : Nat) : List (Nat × Bool) :=
  match getCommitConsensus c.commitMsgs C N with
  | some r => [r]
  | none =>
    let C' := (N + 4294967296 - 1 - C) % 4294967296
    let keys := sortNat (c.esigs.map (·.1))
    cdReachLoop c isEnd C' keys (keys.length + 1) [[]] []

def parseGccMsg (t : String) : CommitMsg :=
  match t.splitOn ":" with
  | [c, p, e, es] =>
    { committer := Proto.natOf c, proposer := Proto.natOf p, hash := [], forEmpty := e == "1",
      endorsersSig := (if es == "-" then [] else (es.splitOn "+")).map fun x => (Proto.natOf x, []), committerSig := [] }
  | _ => { committer := 0, proposer := 0, hash := [], forEmpty := false, endorsersSig := [], committerSig := [] }

def step (s : St) (toks : List String) : St × String :=
  match toks with
  | ["init", _self, _c, _n, _endorsers, peers, _connected, isend] =>
    ({ isEnd := natList isend, hasKey := (splitList peers).map fun t => Proto.natOf ((t.splitOn ":").headD "0"), cands := [] }, "ok")
  | ["prop", blk, proposer, sig] =>
    let b := Proto.natOf blk
    let (c, r) := newBlockProposal (getCand s b) ⟨Proto.natOf proposer, Proto.bytesOf sig⟩
    (putCand s b c, if r == .ok then "ok" else "dup")
  | ["end", blk, endorser, proposer, fe, sig] =>
    let b := Proto.natOf blk
    (putCand s b (newBlockEndorsement (getCand s b) (Proto.natOf endorser) ⟨Proto.natOf proposer, Proto.bytesOf sig, fe == "1"⟩), "ok")
  | ["commit", blk, committer, proposer, hash, fe, csig, esigs] =>
    let b := Proto.natOf blk
    let (c, r) := newBlockCommitment (getCand s b)
      { committer := Proto.natOf committer, proposer := Proto.natOf proposer, hash := Proto.bytesOf hash, forEmpty := fe == "1",
        endorsersSig := parseEndorsersSig esigs, committerSig := Proto.bytesOf csig }
    (putCand s b c, if r == .ok then "ok" else "dup")
  | ["dump", blk] =>
    let b := Proto.natOf blk
    if hasCand s b then (s, dump (getCand s b)) else (s, "none")
  | ["edone", blk, c] =>
    let cand := getCand s (Proto.natOf blk)
    let order := sortNat (cand.esigs.map (·.1))
    (s, "done=" ++ b01 (endorseDone cand order (Proto.natOf c)).isSome)
  | ["edcheck", blk, c, p, e] =>
    let cand := getCand s (Proto.natOf blk)
    (s, if (edReach cand (Proto.natOf c)).contains (Proto.natOf p, e == "1") then "possible" else "impossible")
  | ["cdone", blk, c, n] =>
    let cand := getCand s (Proto.natOf blk)
    if !hasCand s (Proto.natOf blk) then (s, "none") else
    match getCommitConsensus cand.commitMsgs (Proto.natOf c) (Proto.natOf n) with
    | some (p, e) => (s, s!"msgs p={p} e={b01 e}")
    | none =>
      let order := sortNat (cand.esigs.map (·.1))
      (s, "fallback done=" ++ b01 (commitDone cand order (fun x => s.isEnd.contains x) (Proto.natOf c) (Proto.natOf n)).isSome)
  | ["cdcheck", blk, c, n, p, e] =>
    let cand := getCand s (Proto.natOf blk)
    (s, if (cdReach cand (fun x => s.isEnd.contains x) (Proto.natOf c) (Proto.natOf n)).contains (Proto.natOf p, e == "1") then "possible" else "impossible")
  | "gcc" :: c :: n :: msgs =>
    match getCommitConsensus (msgs.map parseGccMsg) (Proto.natOf c) (Proto.natOf n) with
    | some (p, e) => (s, s!"p={p} e={b01 e}")
    | none => (s, "none")
  | ["seal", blk, proposer, fe, psig] =>
    let cand := getCand s (Proto.natOf blk)
    let order := sortNat (cand.esigs.map (·.1))
    match sealSignatures cand.esigs order (fun x => s.hasKey.contains x) (Proto.natOf proposer) (Proto.bytesOf psig) (fe == "1") with
    | (p, sg) :: rest =>
      let rs := rest.map fun (e, x) => s!"{e}/{Hex.showHex x}"
      (s, s!"first={p}/{Hex.showHex sg} rest=" ++ (if rs.isEmpty then "-" else ",".intercalate rs))
    | [] => (s, "bad")
  | _ => (s, "bad-op")

end VbftCntDrv

def main (args : List String) : IO Unit :=
  match args with
  | ["vbftsel"] => Proto.run () VbftSelDrv.step
  | ["sigs"] => Proto.run () SigsDrv.step
  | ["vbftcnt"] => Proto.run ({} : VbftCntDrv.St) VbftCntDrv.step
  | _ => IO.eprintln "usage: drv_node <family>"
